"""Sensitivity runs: apply a change to a scratch worktree of /repo and run checks
against it (GBSIM_REPO), never touching /repo itself.

  tools_mutants.py revert <commit> <PROP[,PROP]> [--runs N]   # HEAD with one fix reverted
  tools_mutants.py patch <file.diff> <PROP[,PROP]> [--runs N] # HEAD + patch
  tools_mutants.py allfixes                                  # revert every 'fix:' commit in turn

Prints for each (change, property): detected? and the replay files produced.
Scratch worktrees live under /tmp/gbmut-* and are removed immediately.
"""
import json, os, re, shutil, subprocess, sys, time

ROOT = os.path.dirname(os.path.abspath(__file__))
RUNS = {"C04": 20000, "C20": 10000, "C03": 2500, "C13": 1200, "C19": 1200}


def sh(*a, **k):
    return subprocess.run(a, capture_output=True, text=True, **k)


def run_on(wt, prop, runs, label):
    env = dict(os.environ, GBSIM_REPO=wt)
    t0 = time.time()
    r = subprocess.run(["./check", prop, "--runs", str(runs), "--pairs", "0"], cwd=ROOT, env=env, capture_output=True, text=True)
    out = r.stdout
    files = re.findall(r"^VIOLATION property=\S+ replay=(\S+)", out, flags=re.M)
    sites = re.findall(r"^  site=(.*)$", out, flags=re.M)
    kept = []
    os.makedirs(os.path.join(ROOT, "replays", "mutants"), exist_ok=True)
    for f in files:
        dst = os.path.join(ROOT, "replays", "mutants", f"{label}-{prop}-{os.path.basename(f)}")
        shutil.copy(f, dst)
        kept.append(dst)
    summ = [l for l in out.splitlines() if l.startswith(prop + " ")]
    print(f"[{label}] {prop}: exit={r.returncode} detected={bool(files) or 'VIOLATION-UNSHRUNK' in out} sites={len(sites)} wall={time.time()-t0:.0f}s {summ[-1] if summ else out[-300:] + r.stderr[-300:]}", flush=True)
    for s in sites[:6]:
        print("     ", s[:200])
    return r.returncode, kept


def with_worktree(label, mutate):
    wt = f"/tmp/gbmut-{label}"
    sh("git", "-C", "/repo", "worktree", "remove", "--force", wt)
    r = sh("git", "-C", "/repo", "worktree", "add", "--detach", wt, "HEAD")
    if r.returncode:
        print("worktree failed", r.stderr)
        return None
    try:
        ok = mutate(wt)
        if not ok:
            return None
        yield wt
    finally:
        sh("git", "-C", "/repo", "worktree", "remove", "--force", wt)
        shutil.rmtree(wt, ignore_errors=True)


def do(label, mutate, props, runs=None):
    res = {}
    for wt in with_worktree(label, mutate):
        for p in props:
            res[p] = run_on(wt, p, runs or RUNS[p], label)
    return res


def revert(commit):
    def m(wt):
        r = sh("git", "-C", wt, "revert", "-n", commit)
        if r.returncode:
            print(f"[{commit}] revert conflicts: {r.stderr.strip()[:200]}")
            return False
        return True
    return m


def patch(path):
    def m(wt):
        r = sh("git", "-C", wt, "apply", os.path.abspath(path))
        if r.returncode:
            print(f"[{path}] patch does not apply: {r.stderr.strip()[:200]}")
            return False
        return True
    return m


FIX_PROPS = {
    "numba.py": ["C04", "C03"],
    "nanops.py": ["C20"],
    "util.py": ["C20"],
    "core.py": ["C03", "C13"],
    "factorization.py": ["C03"],
    "emas.py": ["C03"],
}

if __name__ == "__main__":
    a = sys.argv[1:]
    runs = None
    if "--runs" in a:
        i = a.index("--runs")
        runs = int(a[i + 1])
        del a[i : i + 2]
    if a[0] == "revert":
        do("rev-" + a[1][:7], revert(a[1]), a[2].split(","), runs)
    elif a[0] == "patch":
        do(os.path.basename(os.path.dirname(os.path.abspath(a[1]))) or "patch", patch(a[1]), a[2].split(","), runs)
    elif a[0] == "allfixes":
        log = sh("git", "-C", "/repo", "log", "--format=%h %s").stdout.splitlines()
        for line in reversed(log):
            h, subj = line.split(" ", 1)
            if not subj.startswith("fix:"):
                continue
            files = sh("git", "-C", "/repo", "show", "--name-only", "--format=", h).stdout.split()
            props = []
            for f in files:
                for p in FIX_PROPS.get(os.path.basename(f), []):
                    if p not in props:
                        props.append(p)
            if any(k in subj for k in ("GroupBy.groups", "key_count", "head/tail/nth could return a view")):
                props = ["C19"]
            props = [p for p in props if os.path.exists(os.path.join(ROOT, "gbsim", p.lower() + ".py"))]
            if len(a) > 1:
                props = [p for p in props if p in a[1].split(",")]
            print(f"=== {h} {subj}  -> {props}", flush=True)
            do("rev-" + h, revert(h), props, runs)
