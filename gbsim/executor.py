"""The simulated thread pool: a discrete-event, task-atomic model of
``concurrent.futures.ThreadPoolExecutor`` + ``as_completed``.

Everything runs on the calling thread.  Which task starts, runs its body,
finishes, and which finished future the consumer is handed next, is decided by
the run's schedule stream (`Choices`); one stream == one exactly repeatable
execution.  Faults (a task raising before/after its body, a failing thread
spawn) are injected from a plan that is part of the scenario.

Model (DESIGN.md 3.3):
  * ``submit`` appends to a FIFO queue; free workers (at most W, and at most the
    number of successfully spawned threads) take the queue head immediately;
  * a started task is given a simulated duration (0..7 ticks, one task per pool
    may be stalled x100); its body is executed atomically either at its start or
    at its finish tick (drawn); at the finish tick the future becomes *done*;
  * the consumer (``as_completed``) is handed done futures one at a time, in a
    drawn order among those currently done, possibly after letting up to two
    more events happen; its loop body therefore interleaves with task events;
  * ``result()`` on a future that is not done advances the simulation until it
    is; ``shutdown``/``__exit__`` drain everything, like ``shutdown(wait=True)``.
"""

from __future__ import annotations

import hashlib
import heapq
from collections import Counter, deque
from concurrent.futures import CancelledError
from typing import Any, List, Optional

import numpy as np

from .choices import Choices

STALL_FACTOR = 100


class SimDeadlock(RuntimeError):
    """Consumer waits, nothing is runnable: reported, never swallowed."""


class ProtocolError(Exception):
    """An invariant of the simulated pool itself was broken (harness error)."""


class InjectedFault(MemoryError):
    """The injected worker failure (a MemoryError, i.e. an ordinary Exception)."""


class InjectedSpawnFailure(RuntimeError):
    pass


class InjectedInterrupt(KeyboardInterrupt):
    """Ctrl-C in the calling thread while it waits for the pool (a BaseException: the
    library's `except Exception` does not see it; the `with` block still drains the pool)."""


# ---------------------------------------------------------------------------
# fingerprints (shared-write monitor)
# ---------------------------------------------------------------------------


def _iter_arrays(obj, depth=0):
    if depth > 3 or obj is None:
        return
    if isinstance(obj, np.ndarray):
        yield obj
        return
    if isinstance(obj, (str, bytes, int, float, bool, slice)):
        return
    tname = type(obj).__name__
    if isinstance(obj, (list, tuple)) or tname in ("List", "ReflectedList"):
        try:
            for x in obj:
                yield from _iter_arrays(x, depth + 1)
        except Exception:
            return
        return
    if isinstance(obj, dict):
        for x in obj.values():
            yield from _iter_arrays(x, depth + 1)
        return
    mod = type(obj).__module__ or ""
    if mod.startswith("pandas"):
        try:
            arr = getattr(obj, "_values", None)
            if arr is None:
                arr = obj
            if hasattr(arr, "codes") and hasattr(arr, "categories"):
                yield np.asarray(arr.codes)
                yield np.asarray(arr.categories)
            elif isinstance(arr, np.ndarray):
                yield arr
            elif hasattr(arr, "_pa_array"):
                yield from _iter_arrays(arr._pa_array, depth + 1)
            elif hasattr(arr, "_ndarray"):
                yield arr._ndarray
        except Exception:
            return
        return
    if mod.startswith("polars"):
        try:
            yield from _iter_arrays(obj.to_arrow(), depth + 1)
        except Exception:
            return
        return
    if mod.startswith("pyarrow"):
        try:
            chunks = obj.chunks if hasattr(obj, "chunks") else [obj]
            for c in chunks:
                for b in c.buffers():
                    if b is not None:
                        yield np.frombuffer(b, dtype=np.uint8)
        except Exception:
            return
        return


def fingerprint(obj) -> tuple:
    out = []
    for a in _iter_arrays(obj):
        try:
            if a.dtype == object:
                h = hashlib.blake2b(repr(a.tolist()).encode(), digest_size=8).hexdigest()
            else:
                h = hashlib.blake2b(np.ascontiguousarray(a).view(np.uint8).tobytes(), digest_size=8).hexdigest()
        except Exception:
            h = "?"
        out.append((a.shape, str(a.dtype), h))
    return tuple(out)


# ---------------------------------------------------------------------------
# context
# ---------------------------------------------------------------------------


# ---------------------------------------------------------------------------
# statement-level fault points (crash / interrupt at an arbitrary Python line of the library)
# ---------------------------------------------------------------------------

STMT_KINDS = ("stmt_fail", "stmt_interrupt")
_MUTATOR_OPS = frozenset(("STORE_ATTR", "DELETE_ATTR", "STORE_SUBSCR", "DELETE_SUBSCR", "STORE_SLICE"))
_CODE_CLASS: dict = {}  # code object -> 0 (not the library) | 1 (library) | 2 (library, writes attributes / elements)
_CODE_LINES: dict = {}  # code object -> frozenset of line numbers that are admissible fault points
# An exception "before line L" stands for: the first thing on L that can fail (a call, an
# arithmetic / indexing / container-building operation -- where a signal handler runs or an
# allocation fails) failed, before L stored anything.  A line that stores to the heap without
# any such operation before the store (`self.a = None`, `self.a, self.b = x, None`) cannot be
# interrupted there in CPython and is not a fault point; a line that neither stores nor can fail
# is equivalent to the next one.  Restricting faults to admissible lines loses no realizable
# crash state and keeps unrealizable ones out.
_FALLIBLE_PREFIXES = ("CALL", "BINARY_", "COMPARE_OP", "CONTAINS_OP", "BUILD_LIST", "BUILD_MAP", "BUILD_SET", "BUILD_STRING", "BUILD_SLICE", "BUILD_CONST_KEY_MAP", "FOR_ITER", "GET_ITER", "UNPACK_", "LIST_", "DICT_", "SET_", "FORMAT_VALUE", "IMPORT_", "UNARY_", "SEND", "YIELD_VALUE", "RAISE_VARARGS", "LOAD_SUPER_ATTR")
_LIB_DIR = [None]
STMT_SITES: Counter = Counter()  # (file:function:line) where a statement fault fired, per process


def _classify_code(code) -> int:
    if _LIB_DIR[0] is None:
        import os as _os

        import groupby_lib as _g

        _LIB_DIR[0] = _os.path.dirname(_os.path.abspath(_g.__file__)) + _os.sep
    fn = code.co_filename
    if not fn.startswith(_LIB_DIR[0]):
        c = 0
    else:
        import dis

        c = 1
        lines: dict = {}
        try:
            for i in dis.get_instructions(code):
                if i.opname in _MUTATOR_OPS:
                    c = 2
                ln = i.positions.lineno if i.positions is not None else None
                if ln is None:
                    continue
                st = lines.setdefault(ln, [False, False])  # [admissible, a heap store was seen first]
                if st[0] or st[1]:
                    continue
                if i.opname in _MUTATOR_OPS:
                    st[1] = True
                elif i.opname.startswith(_FALLIBLE_PREFIXES):
                    st[0] = True
        except Exception:
            lines = {}
        _CODE_LINES[code] = frozenset(ln for ln, st in lines.items() if st[0])
    _CODE_CLASS[code] = c
    return c


class LineTracer:
    """Counts the Python line events executed inside groupby_lib frames on this thread (numba
    compilation excluded, see seams) and, when armed, raises the injected exception *before* the
    `fire_at`-th of them executes.  mode 0: every library line; mode 1: only lines of library
    functions that store attributes or elements (where half-done state can be left behind);
    mode 2: only the lines reached right after an attribute of the object at work (`self`) was
    stored or deleted -- the instants at which its state is possibly half-changed."""

    def __init__(self, ctx: "SimContext", mode: int = 0, fire_at: Optional[int] = None, kind: Optional[str] = None):
        self.ctx = ctx
        self.mode = mode
        self.fire_at = fire_at
        self.kind = kind
        self.count = 0
        self.fired_at: Optional[str] = None
        self._prev = None
        self._sigs: dict = {}
        self._keep: list = []
        self._pending = False

    def _global(self, frame, event, arg):
        if event != "call":
            return None
        code = frame.f_code
        c = _CODE_CLASS.get(code)
        if c is None:
            c = _classify_code(code)
        if c == 0 or (self.mode == 1 and c != 2):
            return None
        return self._local

    def _state_changed(self, frame) -> bool:
        """mode 2: has the attribute table of the object this frame works on been re-bound since
        the last library line event (anywhere) that looked at it?  (in-place edits of an array
        held by the object are not seen: only stores / deletions of attributes are)"""
        obj = frame.f_locals.get("self")
        d = getattr(obj, "__dict__", None)
        if not isinstance(d, dict):
            return False
        sig = (len(d), hash(tuple(map(id, d.values()))))
        key = id(obj)
        old = self._sigs.get(key)
        self._sigs[key] = sig
        self._keep.append(obj)  # ids stay unique while the tracer lives
        return old is not None and old != sig

    def _local(self, frame, event, arg):
        if event == "line":
            if self.mode == 2 and self._state_changed(frame):
                self._pending = True
            if frame.f_lineno not in _CODE_LINES.get(frame.f_code, ()):
                return self._local  # not an admissible fault point (see _FALLIBLE_PREFIXES)
            if self.mode == 2:
                if not self._pending:
                    return self._local
                self._pending = False
            n = self.count
            self.count = n + 1
            if n == self.fire_at and self.fired_at is None and self.ctx.fault_fired is None:
                code = frame.f_code
                where = f"{code.co_filename[len(_LIB_DIR[0]):]}:{code.co_name}:{frame.f_lineno}"
                self.fired_at = where
                self.ctx.fault_fired = self.kind
                self.ctx.fault_where = where
                self.ctx.log(-1, self.kind, where, n)
                STMT_SITES[where] += 1
                if self.kind == "stmt_interrupt":
                    raise InjectedInterrupt(f"interrupted before {where}")
                raise InjectedFault(f"injected failure before {where}")
        return self._local

    def __enter__(self):
        import sys

        self._prev = sys.gettrace()
        sys.settrace(self._global)
        return self

    def __exit__(self, *a):
        import sys

        sys.settrace(self._prev)
        self._keep.clear()
        return False


def count_lines(ctx: "SimContext", mode: int) -> LineTracer:
    """A tracer that only counts (used on the model call to scale a fault position)."""
    return LineTracer(ctx, mode=mode)


class SimContext:
    """Per-execution state shared by all (nested) pools of one public call."""

    def __init__(
        self,
        sched: Optional[Choices] = None,
        workers: Optional[int] = None,
        cpu_count: int = 4,
        fault: Optional[dict] = None,
        monitor: bool = False,
        preempt: bool = False,
    ):
        # pre-emptive mode: task bodies run in real threads, exactly one of which runs at any time;
        # the scheduler (whoever waits for the pool) decides at every line event of a library frame
        # inside a task whether the task is pre-empted there (fault-free configurations only)
        self.preempt = bool(preempt) and not fault
        self.sched = sched if sched is not None else Choices(replay=[])
        self.workers = workers
        self.cpu_count = cpu_count
        self.fault = dict(fault) if fault else None
        self.monitor = monitor
        self.events: List[tuple] = []
        self.seq = 0
        self.ticks = 0
        self.depth = 0
        self.exec_counter = 0
        self.submit_counter = 0
        self.fault_fired: Optional[str] = None
        self.fault_where: Optional[str] = None
        self.preempt_sites: set = set()
        self.wait_counter = 0
        self.pools: List[tuple] = []
        self.stats: Counter = Counter()
        self.hazards: List[tuple] = []
        self.n_pools = 0
        self.max_tasks = 0

    def log(self, tick, kind, site, idx):
        self.seq += 1
        self.events.append((self.seq, tick, self.depth, kind, site, idx))

    def event_digest(self) -> str:
        return hashlib.sha256(repr(self.events).encode()).hexdigest()[:16]

    def interleavings(self):
        return [hashlib.blake2b(repr(p).encode(), digest_size=8).hexdigest() for p in self.pools]


_NULL_CTX = SimContext()
_CTX: SimContext = _NULL_CTX


def set_context(ctx: Optional[SimContext]) -> SimContext:
    global _CTX
    prev = _CTX
    _CTX = ctx if ctx is not None else SimContext()
    return prev


def current() -> SimContext:
    return _CTX


class use_context:
    def __init__(self, ctx: SimContext):
        self.ctx = ctx

    def __enter__(self):
        self.prev = set_context(self.ctx)
        self.tracer = None
        f = self.ctx.fault
        if f and f.get("kind") in STMT_KINDS and f.get("at") is not None:
            self.tracer = LineTracer(self.ctx, mode=f.get("mode", 0), fire_at=f["at"], kind=f["kind"])
            self.tracer.__enter__()
        return self.ctx

    def __exit__(self, *a):
        if self.tracer is not None:
            self.tracer.__exit__()
        set_context(self.prev)
        return False


# ---------------------------------------------------------------------------
# futures and the pool
# ---------------------------------------------------------------------------

_PENDING, _RUNNING, _FINISHED, _CANCELLED = range(4)

PREEMPT_ONE_IN = 3  # a task is pre-empted at a library line event with probability 1/3
PREEMPT_SITES: Counter = Counter()


class _TaskThread:
    """One task body in a real thread that only runs while it holds the baton.  `run_slice` (called
    by whoever schedules: the consumer of the pool) hands the baton over and waits until the task
    parks again -- at a drawn line event of a library frame -- or ends.  Exactly one thread executes
    Python (or a kernel) at any time, so the interleaving is a pure function of the schedule stream."""

    def __init__(self, pool: "SimExecutor", fut: "SimFuture"):
        import threading

        self.pool = pool
        self.fut = fut
        self.resume = threading.Event()
        self.parked = threading.Event()
        self.done = False
        self.started = False
        self.slices = 0
        self.thread = threading.Thread(target=self._main, daemon=True, name=f"gbsim-task-{pool._serial}-{fut._idx}")
        self.thread._gbsim_depth = pool._depth + 1

    # -- scheduler side --
    def run_slice(self):
        self.slices += 1
        self.parked.clear()
        if not self.started:
            self.started = True
            self.thread.start()
        self.resume.set()
        self.parked.wait()

    # -- task side --
    def _main(self):
        import sys

        self.resume.wait()
        self.resume.clear()
        fut = self.fut
        try:
            sys.settrace(self._trace_global)
            try:
                fut._result = fut._fn(*fut._args, **fut._kwargs)
            finally:
                sys.settrace(None)
        except BaseException as exc:  # as the real worker does
            fut._exc = exc
        finally:
            self.done = True
            self.parked.set()

    def _trace_global(self, frame, event, arg):
        if event != "call":
            return None
        code = frame.f_code
        c = _CODE_CLASS.get(code)
        if c is None:
            c = _classify_code(code)
        if c == 0:
            return None
        self._maybe_yield(frame)
        return self._trace_local

    def _trace_local(self, frame, event, arg):
        if event == "line":
            self._maybe_yield(frame)
        return self._trace_local

    def _maybe_yield(self, frame):
        ctx = self.pool.ctx
        if not ctx.sched.chance(1, PREEMPT_ONE_IN):
            return
        code = frame.f_code
        where = f"{code.co_filename[len(_LIB_DIR[0]):]}:{code.co_name}:{frame.f_lineno}"
        ctx.stats["preemptions"] += 1
        ctx.log(self.pool._now, "preempt", where, self.fut._idx)
        PREEMPT_SITES[where] += 1
        ctx.preempt_sites.add(where)
        # park: hand the baton back to the scheduler, wait to be resumed
        self.parked.set()
        self.resume.wait()
        self.resume.clear()


class SimFuture:
    def __init__(self, pool: "SimExecutor", idx: int, fn, args, kwargs):
        self._pool = pool
        self._idx = idx
        self._fn, self._args, self._kwargs = fn, args, kwargs
        self._state = _PENDING
        self._body_ran = False
        self._result: Any = None
        self._exc: Optional[BaseException] = None
        self._delivered = False
        self._callbacks = []
        self._n_yield = 0

    # -- concurrent.futures.Future API --
    def done(self):
        return self._state in (_FINISHED, _CANCELLED)

    def running(self):
        return self._state == _RUNNING

    def cancelled(self):
        return self._state == _CANCELLED

    def cancel(self):
        if self._state == _PENDING and self in self._pool._queue:
            self._pool._queue.remove(self)
            self._state = _CANCELLED
            self._pool.ctx.log(self._pool._now, "cancel", self._pool._site(self), self._idx)
            for cb in self._callbacks:
                cb(self)
            return True
        return self._state == _CANCELLED

    def _wait(self):
        while not self.done():
            if not self._pool._step():
                raise SimDeadlock(f"result() of task {self._idx} can never complete")

    def result(self, timeout=None):
        self._wait()
        if self._state == _CANCELLED:
            raise CancelledError()
        if self._exc is not None:
            raise self._exc
        return self._result

    def exception(self, timeout=None):
        self._wait()
        if self._state == _CANCELLED:
            raise CancelledError()
        return self._exc

    def add_done_callback(self, fn):
        if self.done():
            fn(self)
        else:
            self._callbacks.append(fn)

    def __hash__(self):
        # deterministic hash (submission index), so that sets/dicts of futures
        # iterate reproducibly inside the library under test
        return hash((self._pool._serial, self._idx))

    def __eq__(self, other):
        return self is other


class SimExecutor:
    def __init__(self, max_workers=None, thread_name_prefix="", initializer=None, initargs=(), **_kw):
        ctx = current()
        self.ctx = ctx
        if max_workers is not None and max_workers <= 0:
            raise ValueError("max_workers must be greater than 0")
        default = min(32, ctx.cpu_count + 4)
        w = max_workers if max_workers is not None else default
        if ctx.workers is not None:
            w = min(w, ctx.workers)
        self._W = max(1, int(w))
        self._tasks: List[SimFuture] = []
        self._queue: deque = deque()
        self._heap: list = []
        self._running = 0
        self._spawned = 0
        self._now = 0
        self._shutdown = False
        self._stalled = False
        self._exec_order: List[int] = []
        self._delivery: List[int] = []
        self._done_at_delivery: List[int] = []
        self._first_delivery_seq = None
        import threading

        # (a pool created inside a pre-emptively run task body lives one level below that task)
        self._depth = getattr(threading.current_thread(), "_gbsim_depth", ctx.depth)
        self._active: List[_TaskThread] = []
        self._slices: List[int] = []
        self._serial = ctx.n_pools  # per-context, so hashes of futures replay
        self._initializer = initializer
        self._initargs = initargs
        self._recorded = False
        ctx.n_pools += 1
        if self._depth > 0:
            ctx.stats["nested_pool"] += 1

    # -- helpers --
    def _site(self, fut=None) -> str:
        f = fut if fut is not None else (self._tasks[0] if self._tasks else None)
        if f is None:
            return "?"
        fn = f._fn
        name = getattr(fn, "__name__", None)
        if name is None and hasattr(fn, "func"):
            name = getattr(fn.func, "__name__", None)
        return str(name or type(fn).__name__)

    # -- Executor API --
    def submit(self, fn, /, *args, **kwargs):
        ctx = self.ctx
        if self._shutdown:
            raise RuntimeError("cannot schedule new futures after shutdown")
        k = ctx.submit_counter
        ctx.submit_counter += 1
        fut = SimFuture(self, len(self._tasks), fn, args, kwargs)
        self._tasks.append(fut)
        self._queue.append(fut)
        ctx.log(self._now, "submit", self._site(fut), fut._idx)
        f = ctx.fault
        if f and ctx.fault_fired is None and f["kind"] == "spawn_fail" and f["k"] == k:
            # the work item is queued (as in CPython) but no new thread appears
            ctx.fault_fired = "spawn_fail"
            ctx.log(self._now, "spawn_fail", self._site(fut), fut._idx)
            raise InjectedSpawnFailure("can't start new thread")
        if self._spawned < self._W:
            self._spawned += 1
        # a worker may pick the task up while the caller is still submitting
        if ctx.sched.chance(1, 4):
            self._step()
        return fut

    def map(self, fn, *iterables, timeout=None, chunksize=1):
        futs = [self.submit(fn, *args) for args in zip(*iterables)]

        def gen():
            for f in futs:
                yield f.result()

        return gen()

    def shutdown(self, wait=True, *, cancel_futures=False):
        self._shutdown = True
        if cancel_futures:
            for f in list(self._queue):
                f.cancel()
        while self._step():
            pass
        self._record()

    def __enter__(self):
        return self

    def __exit__(self, exc_type, exc, tb):
        self.shutdown(wait=True)
        return False

    # -- the event loop --
    def _capacity(self):
        return min(self._W, self._spawned)

    def _step(self) -> bool:
        """Process one event.  Returns False when nothing can happen."""
        ctx = self.ctx
        if ctx.preempt:
            return self._step_preempt()
        if self._queue and self._running < self._capacity():
            fut = self._queue.popleft()
            self._start(fut)
            return True
        if self._heap:
            tick, _seq, fut = heapq.heappop(self._heap)
            if tick > self._now:
                ctx.ticks += tick - self._now
                self._now = tick
            self._finish(fut)
            return True
        return False

    def _step_preempt(self) -> bool:
        """Pre-emptive mode: start a queued task (a parked thread) or let one started task run
        until its next pre-emption point or its end."""
        ctx = self.ctx
        s = ctx.sched
        can_start = bool(self._queue) and self._running < self._capacity()
        if can_start and (not self._active or s.chance(1, 2)):
            fut = self._queue.popleft()
            fut._state = _RUNNING
            fut._body_ran = True
            self._running += 1
            ctx.exec_counter += 1
            self._exec_order.append(fut._idx)
            if self._first_delivery_seq is not None:
                ctx.stats["consumer_interleaved_with_tasks"] += 1
            ctx.log(self._now, "start", self._site(fut), fut._idx)
            self._active.append(_TaskThread(self, fut))
            return True
        if self._active:
            t = self._active[s.draw(len(self._active))]
            self._now += 1
            ctx.ticks += 1
            self._slices.append(t.fut._idx)
            if len(self._active) > 1 and t.started:
                ctx.stats["resumed_among_several_started_tasks"] += 1
            t.run_slice()
            if t.done:
                self._active.remove(t)
                fut = t.fut
                fut._state = _FINISHED
                self._running -= 1
                ctx.log(self._now, "finish", self._site(fut), fut._idx)
                for cb in fut._callbacks:
                    cb(fut)
            return True
        return False

    def _start(self, fut: SimFuture):
        ctx = self.ctx
        s = ctx.sched
        fut._state = _RUNNING
        self._running += 1
        dur = s.draw(8)
        if not self._stalled and s.chance(1, 12):
            self._stalled = True
            dur = (dur + 1) * STALL_FACTOR
            ctx.stats["stall"] += 1
        at_finish = s.draw(2)
        ctx.log(self._now, "start", self._site(fut), fut._idx)
        if not at_finish:
            self._run_body(fut)
        ctx.seq += 1
        heapq.heappush(self._heap, (self._now + dur, ctx.seq, fut))

    def _finish(self, fut: SimFuture):
        ctx = self.ctx
        if not fut._body_ran:
            self._run_body(fut)
        fut._state = _FINISHED
        self._running -= 1
        ctx.log(self._now, "finish", self._site(fut), fut._idx)
        for cb in fut._callbacks:
            cb(fut)

    def _run_body(self, fut: SimFuture):
        ctx = self.ctx
        if fut._body_ran:
            raise ProtocolError("task body executed twice")
        fut._body_ran = True
        e = ctx.exec_counter
        ctx.exec_counter += 1
        self._exec_order.append(fut._idx)
        if self._first_delivery_seq is not None:
            ctx.stats["consumer_interleaved_with_tasks"] += 1
        f = ctx.fault
        inject = None
        if f and ctx.fault_fired is None and f["kind"] in ("task_fail_before", "task_fail_after") and f["k"] == e:
            inject = f["kind"]
            ctx.fault_fired = inject
            ctx.log(self._now, inject, self._site(fut), fut._idx)
        if inject == "task_fail_before":
            fut._exc = InjectedFault(f"injected failure before task {fut._idx}")
            return
        before = None
        if ctx.monitor:
            before = fingerprint((fut._args, fut._kwargs))
        ctx.depth += 1
        try:
            if self._initializer is not None:
                self._initializer(*self._initargs)
                self._initializer = None
            fut._result = fut._fn(*fut._args, **fut._kwargs)
        except BaseException as exc:  # as the real worker does
            fut._exc = exc
        finally:
            ctx.depth -= 1
        if before is not None:
            after = fingerprint((fut._args, fut._kwargs))
            if after != before:
                changed = [i for i, (a, b) in enumerate(zip(before, after)) if a != b]
                ctx.hazards.append((self._site(fut), fut._idx, tuple(changed)))
        if inject == "task_fail_after":
            fut._result = None
            fut._exc = InjectedFault(f"injected failure after task {fut._idx}")

    def _record(self):
        if self._recorded or not self._tasks:
            return
        self._recorded = True
        ctx = self.ctx
        n = len(self._tasks)
        ctx.max_tasks = max(ctx.max_tasks, n)
        ctx.pools.append((self._site(), n, self._depth, tuple(self._exec_order), tuple(self._delivery), tuple(self._done_at_delivery)) + ((tuple(self._slices),) if self._slices else ()))
        if self._slices:
            ctx.stats["preemptive_pools"] += 1
            if any(a != b for a, b in zip(self._slices, self._slices[1:])) and len(set(self._slices)) > 1:
                # some task ran a slice between two slices of another one
                seen_open = set()
                last = None
                for i_ in self._slices:
                    if i_ != last and i_ in seen_open:
                        ctx.stats["tasks_interleaved_inside_bodies"] += 1
                        break
                    seen_open.add(i_)
                    last = i_
        if self._exec_order != sorted(self._exec_order) or self._delivery != sorted(self._delivery):
            ctx.stats["completion_order_not_fifo"] += 1
        if self._W < n:
            ctx.stats["workers_lt_tasks"] += 1
        if n >= 2:
            ctx.stats["pools_ge2"] += 1


def sim_as_completed(fs, timeout=None):
    fs = list(fs)
    seen = set()
    uniq = []
    for f in fs:
        if id(f) not in seen:
            seen.add(id(f))
            uniq.append(f)
    fs = uniq
    if not all(isinstance(f, SimFuture) for f in fs):
        raise TypeError("sim_as_completed got a foreign future")

    def gen():
        remaining = list(fs)
        while remaining:
            # wait until at least one future is done
            while not any(f.done() for f in remaining):
                progressed = False
                for pool in _pools_of(remaining):
                    if pool._step():
                        progressed = True
                        break
                if not progressed:
                    raise SimDeadlock("as_completed waits but nothing is runnable")
            ctx = remaining[0]._pool.ctx
            fl = ctx.fault
            if fl and fl["kind"] == "consumer_interrupt" and ctx.fault_fired is None:
                w = ctx.wait_counter
                ctx.wait_counter += 1
                if fl["k"] == w:
                    # some tasks are done, others queued or running: the caller is interrupted here
                    ctx.fault_fired = "consumer_interrupt"
                    p0 = remaining[0]._pool
                    ctx.log(p0._now, "consumer_interrupt", p0._site(remaining[0]), -1)
                    raise InjectedInterrupt("interrupted while waiting for the pool")
            extra = ctx.sched.draw(3)
            for _ in range(extra):
                for pool in _pools_of(remaining):
                    if pool._step():
                        break
            done = [f for f in remaining if f.done()]
            j = ctx.sched.draw(len(done))
            f = done[j]
            remaining.remove(f)
            if f._delivered:
                raise ProtocolError("future delivered twice")
            f._delivered = True
            pool = f._pool
            pool._delivery.append(f._idx)
            pool._done_at_delivery.append(len(done))
            if pool._first_delivery_seq is None:
                pool._first_delivery_seq = ctx.seq
            ctx.log(pool._now, "deliver", pool._site(f), f._idx)
            yield f

    return gen()


def _pools_of(futs):
    out = []
    for f in futs:
        if f._pool not in out:
            out.append(f._pool)
    return out


class _DoneAndNotDone(tuple):
    @property
    def done(self):
        return self[0]

    @property
    def not_done(self):
        return self[1]


def sim_wait(fs, timeout=None, return_when="ALL_COMPLETED"):
    fs = list(fs)
    for f in fs:
        f._wait()
    return _DoneAndNotDone((set(fs), set()))
