"""The choice-sequence engine: every run is a pure function of lists of integers.

Two streams per run:

* ``scen``  -- the scenario: data, layout, knobs, operations, fault plan;
* ``sched`` -- every scheduler decision, drawn lazily while the run executes.

Both are `Choices`.  In *generate* mode a draw comes from ``random.Random(seed)``
and is appended to ``trace``; in *replay* mode it is the next element of a
recorded list reduced modulo the number of alternatives (0 once the list is
exhausted).  Alternative 0 is always the simplest one, so a list of zeros is the
baseline scenario under the FIFO schedule, and shrinking converges towards it.

Nothing else in gbsim may use randomness, the wall clock, ``id()`` or the
iteration order of hashed containers in a decision path.
"""

from __future__ import annotations

import hashlib
import random
from typing import Callable, List, Optional, Sequence


def derive_seed(*parts) -> int:
    """Stable 64-bit seed from arbitrary printable parts (no use of hash())."""
    h = hashlib.sha256("/".join(str(p) for p in parts).encode()).digest()
    return int.from_bytes(h[:8], "big")


class Choices:
    __slots__ = ("_rng", "_replay", "_pos", "trace")

    def __init__(self, seed: Optional[int] = None, replay: Optional[Sequence[int]] = None):
        if (seed is None) == (replay is None):
            raise ValueError("exactly one of seed / replay")
        self._rng = random.Random(seed) if seed is not None else None
        self._replay = list(replay) if replay is not None else None
        self._pos = 0
        self.trace: List[int] = []

    # -- core ---------------------------------------------------------------
    def draw(self, n: int) -> int:
        """Integer in [0, n).  n <= 1 consumes nothing."""
        if n <= 1:
            return 0
        if self._rng is not None:
            v = self._rng.randrange(n)
        else:
            if self._pos < len(self._replay):
                v = self._replay[self._pos] % n
            else:
                v = 0
            self._pos += 1
        self.trace.append(v)
        return v

    # -- conveniences (all built on draw, 0 == simplest) --------------------
    def chance(self, num: int, den: int) -> bool:
        """True with probability num/den; value 0 -> False."""
        return self.draw(den) >= den - num

    def pick(self, seq):
        return seq[self.draw(len(seq))]

    def weighted(self, pairs):
        """pairs: [(weight, value), ...]; first entry is the simplest."""
        total = sum(w for w, _ in pairs)
        v = self.draw(total)
        for w, val in pairs:
            if v < w:
                return val
            v -= w
        return pairs[-1][1]

    def small(self, hi: int, bias: int = 3) -> int:
        """Integer in [0, hi], biased to small values (min of `bias` draws would
        need several draws; instead: geometric-ish via one draw on a table)."""
        if hi <= 0:
            return 0
        # triangular weighting: value k has weight (hi + 1 - k)
        total = (hi + 1) * (hi + 2) // 2
        v = self.draw(total)
        k = 0
        w = hi + 1
        while v >= w:
            v -= w
            k += 1
            w -= 1
        return k

    @property
    def exhausted(self) -> bool:
        return self._replay is not None and self._pos >= len(self._replay)


# ---------------------------------------------------------------------------
# Generic shrinker over a pair of integer lists.
# ---------------------------------------------------------------------------


def shrink(
    scen: List[int],
    sched: List[int],
    test: Callable[[List[int], List[int]], Optional[tuple]],
    max_evals: int = 300,
    deadline: Optional[Callable[[], bool]] = None,
):
    """Minimise (scen, sched) while `test` keeps returning a (scen_trace,
    sched_trace) pair (meaning: same violation site reproduced; the traces are the
    normalised, actually-consumed choices) and None otherwise.

    Passes: zero the schedule; truncate; delete blocks of 8/4/2/1; zero blocks;
    per element 0, v//2, v-1.  To a fixpoint or `max_evals` evaluations.
    """
    evals = 0

    def attempt(a, b):
        nonlocal evals, scen, sched
        if evals >= max_evals or (deadline is not None and deadline()):
            return False
        if a == scen and b == sched:
            return False
        evals += 1
        r = test(list(a), list(b))
        if r is None:
            return False
        na, nb = list(r[0]), list(r[1])
        # accept only if not larger (lexicographic on (len, sum))
        if (len(na) + len(nb), sum(na) + sum(nb)) <= (len(scen) + len(sched), sum(scen) + sum(sched)):
            scen, sched = na, nb
            return True
        return False

    # the schedule first: most violations do not need a special interleaving
    attempt(scen, [])
    improved = True
    while improved and evals < max_evals:
        improved = False
        for which in (1, 0):
            cur = sched if which else scen

            def put(new):
                return attempt(scen, new) if which else attempt(new, sched)

            # truncate tail
            n = len(cur)
            for cut in (n // 2, n - 8, n - 4, n - 2, n - 1):
                if 0 <= cut < len(sched if which else scen):
                    if put((sched if which else scen)[:cut]):
                        improved = True
            # delete blocks
            for size in (8, 4, 2, 1):
                i = 0
                while i + size <= len(sched if which else scen):
                    c = sched if which else scen
                    if put(c[:i] + c[i + size :]):
                        improved = True
                    else:
                        i += size
                    if evals >= max_evals:
                        break
            # zero blocks
            for size in (8, 2):
                i = 0
                while i < len(sched if which else scen):
                    c = sched if which else scen
                    if any(c[i : i + size]):
                        if put(c[:i] + [0] * len(c[i : i + size]) + c[i + size :]):
                            improved = True
                    i += size
                    if evals >= max_evals:
                        break
            # per element
            i = 0
            while i < len(sched if which else scen):
                c = sched if which else scen
                v = c[i]
                if v:
                    for cand in (0, v // 2, v - 1):
                        if cand != v and cand >= 0:
                            c2 = c[:i] + [cand] + c[i + 1 :]
                            if put(c2):
                                improved = True
                                break
                i += 1
                if evals >= max_evals:
                    break
    return scen, sched, evals
