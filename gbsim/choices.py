"""The choice-sequence engine: every run is a pure function of lists of integers.

Two streams per run:

* ``scen``  -- the scenario: data, layout, knobs, operations, fault plan;
* ``sched`` -- every scheduler decision, drawn lazily while the run executes.

Both are `Choices`.  In *generate* mode a draw comes from ``random.Random(seed)``
and is appended to ``trace``; in *replay* mode it is the next element of a
recorded list reduced modulo the number of alternatives (0 once the list is
exhausted).  Alternative 0 is always the simplest one, so a list of zeros is the
baseline scenario under the FIFO schedule, and shrinking converges towards it.

Nothing else in gbsim may use randomness, the wall clock, ``id()`` or the
iteration order of hashed containers in a decision path.
"""

from __future__ import annotations

import hashlib
import random
from typing import Callable, List, Optional, Sequence


def derive_seed(*parts) -> int:
    """Stable 64-bit seed from arbitrary printable parts (no use of hash())."""
    h = hashlib.sha256("/".join(str(p) for p in parts).encode()).digest()
    return int.from_bytes(h[:8], "big")


class Choices:
    __slots__ = ("_rng", "_replay", "_pos", "trace", "spans")

    def __init__(self, seed: Optional[int] = None, replay: Optional[Sequence[int]] = None):
        if (seed is None) == (replay is None):
            raise ValueError("exactly one of seed / replay")
        self._rng = random.Random(seed) if seed is not None else None
        self._replay = list(replay) if replay is not None else None
        self._pos = 0
        self.trace: List[int] = []
        self.spans: List[tuple] = []  # (start, end) of deletable units (rows, operations, steps)

    # -- core ---------------------------------------------------------------
    def draw(self, n: int) -> int:
        """Integer in [0, n).  n <= 1 consumes nothing."""
        if n <= 1:
            return 0
        if self._rng is not None:
            v = self._rng.randrange(n)
        else:
            if self._pos < len(self._replay):
                v = self._replay[self._pos] % n
            else:
                v = 0
            self._pos += 1
        self.trace.append(v)
        return v

    def forced(self, value: int, n: int = 2) -> int:
        """A choice whose value the *generator* decides (e.g. a "one more row?"
        bit derived from an already drawn size) but which is recorded in the trace,
        so that in replay mode it is read back from the list -- which is what lets
        the shrinker delete a row / an operation by deleting its block of choices."""
        if self._rng is not None:
            self.trace.append(value)
            return value
        return self.draw(n)

    def begin(self) -> int:
        return len(self.trace)

    def end(self, start: int):
        if len(self.trace) > start:
            self.spans.append((start, len(self.trace)))

    # -- conveniences (all built on draw, 0 == simplest) --------------------
    def chance(self, num: int, den: int) -> bool:
        """True with probability num/den; value 0 -> False."""
        return self.draw(den) >= den - num

    def pick(self, seq):
        return seq[self.draw(len(seq))]

    def weighted(self, pairs):
        """pairs: [(weight, value), ...]; first entry is the simplest."""
        total = sum(w for w, _ in pairs)
        v = self.draw(total)
        for w, val in pairs:
            if v < w:
                return val
            v -= w
        return pairs[-1][1]

    def small(self, hi: int, bias: int = 3) -> int:
        """Integer in [0, hi], biased to small values (min of `bias` draws would
        need several draws; instead: geometric-ish via one draw on a table)."""
        if hi <= 0:
            return 0
        # triangular weighting: value k has weight (hi + 1 - k)
        total = (hi + 1) * (hi + 2) // 2
        v = self.draw(total)
        k = 0
        w = hi + 1
        while v >= w:
            v -= w
            k += 1
            w -= 1
        return k

    @property
    def exhausted(self) -> bool:
        return self._replay is not None and self._pos >= len(self._replay)


# ---------------------------------------------------------------------------
# Generic shrinker over a pair of integer lists.
# ---------------------------------------------------------------------------


def shrink(
    scen: List[int],
    sched: List[int],
    test: Callable[[List[int], List[int]], Optional[tuple]],
    max_evals: int = 300,
    deadline: Optional[Callable[[], bool]] = None,
):
    """Minimise (scen, sched) while `test` keeps returning a (scen_trace,
    sched_trace) pair (meaning: same violation site reproduced; the traces are the
    normalised, actually-consumed choices) and None otherwise.

    Budgeted, most profitable passes first: drop the schedule; set the leading
    (structural) scenario choices to 0; delete large blocks; zero blocks; lower
    single elements (0, v//2, v-1); delete small blocks.  Repeated to a fixpoint
    or until `max_evals` evaluations / the deadline.
    """
    evals = 0
    cur = [list(scen), list(sched)]
    spans: List[tuple] = []

    def size(a, b):
        return (len(a) + len(b), sum(a) + sum(b))

    def out_of_budget():
        return evals >= max_evals or (deadline is not None and deadline())

    def attempt(a, b):
        nonlocal evals
        if out_of_budget() or (a == cur[0] and b == cur[1]):
            return False
        evals += 1
        r = test(list(a), list(b))
        if r is None:
            return False
        na, nb = _strip(list(r[0])), _strip(list(r[1]))
        if size(na, nb) <= size(cur[0], cur[1]):
            cur[0], cur[1] = na, nb
            spans[:] = list(r[2]) if len(r) > 2 else []
            return True
        return False

    def put(which, new):
        return attempt(cur[0], new) if which else attempt(new, cur[1])

    def delete_blocks(which, sizes):
        got = False
        for size_ in sizes:
            i = 0
            while i + size_ <= len(cur[which]) and not out_of_budget():
                c = cur[which]
                if put(which, c[:i] + c[i + size_ :]):
                    got = True
                else:
                    i += size_
        return got

    def zero_blocks(which, sizes):
        got = False
        for size_ in sizes:
            i = 0
            while i < len(cur[which]) and not out_of_budget():
                c = cur[which]
                if any(c[i : i + size_]) and put(which, c[:i] + [0] * len(c[i : i + size_]) + c[i + size_ :]):
                    got = True
                i += size_
        return got

    def delete_spans():
        """Delete whole generator-declared units (rows, operations, steps), last first."""
        got = False
        k = len(spans) - 1
        while k >= 0 and not out_of_budget():
            if k >= len(spans):
                k = len(spans) - 1
                continue
            a, b = spans[k]
            c = cur[0]
            if b <= len(c) + 64 and a < len(c) and put(0, c[:a] + c[b:]):
                got = True  # spans were refreshed by the successful attempt
                k = min(k, len(spans)) - 1
            else:
                k -= 1
        return got

    def lower_elements(which, lo, hi, cands):
        got = False
        i = lo
        while i < min(hi, len(cur[which])) and not out_of_budget():
            c = cur[which]
            v = c[i]
            if v:
                for cand in cands(v):
                    if cand != v and cand >= 0 and put(which, c[:i] + [cand] + c[i + 1 :]):
                        got = True
                        break
            i += 1
        return got

    cur[0], cur[1] = _strip(cur[0]), _strip(cur[1])
    if not attempt(cur[0], []):  # most violations do not need a special interleaving
        attempt(cur[0] + [0], cur[1])  # (also primes `spans`)
    improved = True
    while improved and not out_of_budget():
        improved = False
        improved |= delete_spans()
        improved |= lower_elements(0, 0, 48, lambda v: (0,))
        for which in (0, 1):
            n = len(cur[which])
            for cut in (n // 2, (3 * n) // 4):
                if 0 <= cut < len(cur[which]) and put(which, cur[which][:cut]):
                    improved = True
            improved |= delete_blocks(which, (32, 16, 8))
        for which in (0, 1):
            improved |= zero_blocks(which, (16, 4))
        for which in (0, 1):
            improved |= lower_elements(which, 0, 10**9, lambda v: (0, v // 2, v - 1))
        for which in (0, 1):
            improved |= delete_blocks(which, (4, 2, 1))
    return cur[0], cur[1], evals


def _strip(a: List[int]) -> List[int]:
    """An exhausted replay list yields 0: trailing zeros are redundant."""
    while a and a[-1] == 0:
        a.pop()
    return a
