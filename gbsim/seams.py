"""Seams: how the simulator takes ownership of everything nondeterministic or
machine-dependent in groupby-lib, by attribute substitution only (no source hook).

`install()` must run in a fresh worker process *before* groupby_lib is imported.
It acts only when GROUPBY_LIB_VERIF=1.

Owned here:
  * thread pool: concurrent.futures.ThreadPoolExecutor / as_completed / wait are
    replaced by dispatching factories that hand out the simulated objects only to
    callers whose module is groupby_lib.* (pandas/pyarrow/polars keep the real ones);
  * machine size: os.cpu_count / multiprocessing.cpu_count as seen from groupby_lib;
  * strategy knobs: THRESHOLD_FOR_CHUNKED_FACTORIZE, rows per numba thread (AST
    rescale of the literal in GroupBy._max_threads_for_numba), number of key chunks,
    elements per nanops thread (AST rescale of the literal in
    util.n_threads_from_array_length);
  * numba: on-disk cache disabled, NUMBA_BOUNDSCHECK=1, thread count.
"""

from __future__ import annotations

import ast
import inspect
import os
import sys
import textwrap
import types

from . import GUARD_ENV

INSTALLED = False
STATE = {
    "rescaled_rows_per_thread": False,
    "rescaled_nanops_elems": False,
    "key_chunks_seam": False,
    "real": {},
}

REAL_THRESHOLD = 1_000_000
REAL_ROWS_PER_THREAD = 1_000_000
REAL_KEY_CHUNKS = 4
REAL_NANOPS_ELEMS = 2_000_000

# environment every simulated process runs under (set by the launcher *before*
# numba is imported anywhere; NUMBA_BOUNDSCHECK is read at numba import time)
ENV = {
    GUARD_ENV: "1",
    "NUMBA_BOUNDSCHECK": "1",
    "NUMBA_NUM_THREADS": "2",
    "OMP_NUM_THREADS": "2",
    "MKL_NUM_THREADS": "1",
    "OPENBLAS_NUM_THREADS": "1",
    "POLARS_MAX_THREADS": "1",
    "PYTHONDONTWRITEBYTECODE": "1",
    "NUMBA_DISABLE_PERFORMANCE_WARNINGS": "1",
}


def apply_env(env=None):
    env = os.environ if env is None else env
    for k, v in ENV.items():
        env[k] = v
    return env


class _ModProxy:
    """Stands in for the `os` / `multiprocessing` module inside groupby_lib.*:
    cpu_count() is simulated, everything else is the real module's."""

    def __init__(self, real):
        object.__setattr__(self, "_real", real)

    def cpu_count(self):
        from . import executor

        return executor.current().cpu_count

    def __getattr__(self, name):
        return getattr(object.__getattribute__(self, "_real"), name)


def _caller_is_lib(depth=2) -> bool:
    try:
        g = sys._getframe(depth).f_globals
    except ValueError:
        return False
    return str(g.get("__name__", "")).startswith("groupby_lib")


def _install_pool_seam():
    import concurrent.futures as cf

    from . import executor

    real_tpe, real_ac, real_wait = cf.ThreadPoolExecutor, cf.as_completed, cf.wait
    STATE["real"].update(ThreadPoolExecutor=real_tpe, as_completed=real_ac, wait=real_wait)

    def ThreadPoolExecutor(*a, **k):
        if _caller_is_lib():
            STATE["pool_hits"] = STATE.get("pool_hits", 0) + 1
            return executor.SimExecutor(*a, **k)
        return real_tpe(*a, **k)

    def as_completed(fs, timeout=None):
        fs = list(fs)
        if fs and all(isinstance(f, executor.SimFuture) for f in fs):
            return executor.sim_as_completed(fs, timeout)
        return real_ac(fs, timeout)

    def wait(fs, timeout=None, return_when="ALL_COMPLETED"):
        fs = list(fs)
        if fs and all(isinstance(f, executor.SimFuture) for f in fs):
            return executor.sim_wait(fs, timeout, return_when)
        return real_wait(fs, timeout, return_when)

    ThreadPoolExecutor.__wrapped__ = real_tpe
    cf.ThreadPoolExecutor = ThreadPoolExecutor
    cf.as_completed = as_completed
    cf.wait = wait
    # `from concurrent.futures.thread import ThreadPoolExecutor` spelling
    import concurrent.futures.thread as cft

    cft.ThreadPoolExecutor = ThreadPoolExecutor


class _Replace(ast.NodeTransformer):
    def __init__(self, literal_values, name):
        self.values = literal_values
        self.name = name
        self.n = 0

    def visit_Constant(self, node):
        if isinstance(node.value, (int, float)) and not isinstance(node.value, bool) and node.value in self.values:
            self.n += 1
            return ast.copy_location(ast.Name(id=self.name, ctx=ast.Load()), node)
        return node


def _rescale_function(func, module, literal_values, global_name, initial):
    """Recompile `func` from the working tree's source with the numeric literal
    replaced by a module-global name.  Returns the new function or None."""
    try:
        src = textwrap.dedent(inspect.getsource(func))
        tree = ast.parse(src)
        tr = _Replace(literal_values, global_name)
        tree = tr.visit(tree)
        if tr.n == 0:
            return None
        fdef = tree.body[0]
        fdef.decorator_list = []
        ast.fix_missing_locations(tree)
        setattr(module, global_name, initial)
        code = compile(tree, f"<gbsim-rescaled {func.__name__}>", "exec")
        ns = {}
        exec(code, module.__dict__, ns)
        return ns[fdef.name]
    except Exception:
        return None


def install(boundscheck: bool = True):
    """Install all seams, then import groupby_lib.  Idempotent."""
    global INSTALLED
    if INSTALLED:
        return
    if os.environ.get(GUARD_ENV) != "1":
        raise RuntimeError(f"{GUARD_ENV}=1 not set: refusing to install simulation seams")
    sys.dont_write_bytecode = True
    if "numba" in sys.modules and boundscheck:
        import numba

        if not numba.config.BOUNDSCHECK:
            raise RuntimeError("numba imported before NUMBA_BOUNDSCHECK was set")
    if "groupby_lib" in sys.modules:
        raise RuntimeError("groupby_lib imported before seams were installed")
    apply_env()
    if not boundscheck:
        os.environ["NUMBA_BOUNDSCHECK"] = "0"

    # third parties first, so that they bind the real pool classes
    import numba
    import numba.core.dispatcher as _disp
    import numpy  # noqa: F401
    import pandas  # noqa: F401
    import polars  # noqa: F401
    import pyarrow

    _disp.Dispatcher.enable_caching = lambda self: None  # no on-disk cache, ever

    # JIT compilation runs library Python code (overloads, typing helpers) the first time a
    # signature is seen in a process: statement-level tracing (executor.LineTracer) is suspended
    # for its duration, so that line counts do not depend on what a worker compiled before
    _base = _disp._DispatcherBase
    _real_cfa = _base._compile_for_args

    def _compile_for_args_untraced(self, *a, **k):
        tr = sys.gettrace()
        if tr is None:
            return _real_cfa(self, *a, **k)
        sys.settrace(None)
        try:
            return _real_cfa(self, *a, **k)
        finally:
            sys.settrace(tr)

    _base._compile_for_args = _compile_for_args_untraced
    try:
        pyarrow.set_cpu_count(1)
        pyarrow.set_io_thread_count(1)
    except Exception:
        pass

    _install_pool_seam()

    import builtins
    import io

    # development aid only (mutant / scratch-worktree runs); registered commands never
    # set it, so checks always run against /repo's working tree
    alt = os.environ.get("GBSIM_REPO")
    if alt:
        sys.path.insert(0, alt)
    import groupby_lib  # noqa: F401

    if alt and not os.path.abspath(groupby_lib.__file__).startswith(os.path.abspath(alt)):
        raise RuntimeError(f"GBSIM_REPO={alt} set but groupby_lib came from {groupby_lib.__file__}")
    STATE["repo"] = os.path.dirname(os.path.dirname(os.path.abspath(groupby_lib.__file__)))
    import groupby_lib.util as util
    from groupby_lib.groupby import core

    # the library prints progress messages; swallow them inside groupby_lib only
    _sink = io.StringIO()

    def _quiet_print(*a, **k):
        return None

    for name, mod in list(sys.modules.items()):
        if name.startswith("groupby_lib") and mod is not None:
            mod.__dict__["print"] = _quiet_print
            for attr in ("os", "multiprocessing"):
                real = mod.__dict__.get(attr)
                if isinstance(real, types.ModuleType):
                    mod.__dict__[attr] = _ModProxy(real)

    GroupBy = core.GroupBy

    # rows per numba thread
    prop = GroupBy.__dict__.get("_max_threads_for_numba")
    if isinstance(prop, property):
        new = _rescale_function(prop.fget, core, (1_000_000,), "__GBSIM_ROWS_PER_THREAD__", REAL_ROWS_PER_THREAD)
        if new is not None:
            GroupBy._max_threads_for_numba = property(new)
            STATE["rescaled_rows_per_thread"] = True

    # key-factorization chunk count
    prop = GroupBy.__dict__.get("_n_threads_for_key_factorization")
    if isinstance(prop, property):
        new = _rescale_function(prop.fget, core, (4,), "__GBSIM_KEY_CHUNKS__", REAL_KEY_CHUNKS)
        if new is not None:
            GroupBy._n_threads_for_key_factorization = property(new)
            STATE["key_chunks_seam"] = True

    # nanops default thread heuristic
    f = util.__dict__.get("n_threads_from_array_length")
    if f is not None:
        new = _rescale_function(f, util, (2e6, 2_000_000), "__GBSIM_NANOPS_ELEMS__", 2e6)
        if new is not None:
            util.n_threads_from_array_length = new
            # names bound by `from .util import n_threads_from_array_length`
            for name, mod in list(sys.modules.items()):
                if name.startswith("groupby_lib") and mod is not None and mod.__dict__.get("n_threads_from_array_length") is f:
                    mod.__dict__["n_threads_from_array_length"] = new
            STATE["rescaled_nanops_elems"] = True

    INSTALLED = True


def set_knobs(threshold=None, rows_per_thread=None, key_chunks=None, nanops_elems=None, numba_threads=None):
    """Apply the strategy knobs of one execution.  None == the real value."""
    from groupby_lib.groupby import core
    import groupby_lib.util as util

    core.THRESHOLD_FOR_CHUNKED_FACTORIZE = REAL_THRESHOLD if threshold is None else threshold
    if STATE["rescaled_rows_per_thread"]:
        core.__GBSIM_ROWS_PER_THREAD__ = REAL_ROWS_PER_THREAD if rows_per_thread is None else rows_per_thread
    if STATE["key_chunks_seam"]:
        core.__GBSIM_KEY_CHUNKS__ = REAL_KEY_CHUNKS if key_chunks is None else key_chunks
    if STATE["rescaled_nanops_elems"]:
        util.__GBSIM_NANOPS_ELEMS__ = 2e6 if nanops_elems is None else nanops_elems
    if numba_threads is not None:
        import numba

        numba.set_num_threads(max(1, min(int(numba_threads), numba.config.NUMBA_NUM_THREADS)))


def components():
    """What ran real and what ran a stub (for evidence)."""
    return {
        "real": [
            "groupby_lib (whole package, JIT-compiled in memory from /repo's working tree)",
            "util.parallel_map body: submission, index map, gathering, exception path, with-exit",
            "every task body (numba kernels, pandas factorize/get_indexer, user functions) and every merge step",
            "strategy heuristics (threshold comparison, threads per call, monotonic-prefix rule, nanops thread heuristic)",
            "numpy / pandas / pyarrow / polars / numba",
        ],
        "stub": [
            "concurrent.futures.ThreadPoolExecutor / as_completed / wait as seen from groupby_lib.* (gbsim.executor: discrete-event task-atomic model, and a pre-emptive model with real task threads of which the simulator lets exactly one run at a time)",
            "os.cpu_count / multiprocessing.cpu_count as seen from groupby_lib.*",
            "literals: THRESHOLD_FOR_CHUNKED_FACTORIZE (module global), 1_000_000 in _max_threads_for_numba"
            + (" (AST-rescaled)" if STATE["rescaled_rows_per_thread"] else " (NOT rescaled: literal not found)"),
            "literal 4 in _n_threads_for_key_factorization" + (" (AST-rescaled)" if STATE["key_chunks_seam"] else " (NOT rescaled)"),
            "literal 2e6 in util.n_threads_from_array_length" + (" (AST-rescaled)" if STATE["rescaled_nanops_elems"] else " (NOT rescaled)"),
            "numba on-disk cache (disabled)",
            "print() inside groupby_lib (silenced)",
            "statement-level fault points: sys.settrace line events of groupby_lib frames on the calling thread (suspended during numba compilation); the injected MemoryError / KeyboardInterrupt subclass is the only thing that is not the library's own",
        ],
        "not_owned": [
            "numba prange schedule inside reduce_array_pair / arr_is_null / _nb_dot (thread count only)",
            "pre-emption inside a compiled kernel or a pandas / NumPy call (atomic model: whole task bodies are atomic; pre-emptive model, one fault-free run in three: task bodies run in real threads holding one baton and are pre-empted at line events of groupby_lib frames; shared writes of kernels are monitored, not interleaved)",
        ],
    }
