"""Canonical form of results and the comparison used by the relational oracles.

Deliberately not stricter than the property texts (DESIGN.md 3.6): label values and
their order (not index dtype), NaN == NaN, NaT == NaT, -0.0 == 0.0, numbers after
casting to a common kind (a changed integer width is ignored; bool vs number is
not).  Floating-point results may differ by a caller-supplied absolute tolerance
(derived from the data, 0 for order-insensitive operations).
"""

from __future__ import annotations

import math

import numpy as np

MIN_INT = np.iinfo(np.int64).min


def _scalar(x):
    """python scalar in canonical form: None for any null."""
    import pandas as pd

    if x is None:
        return None
    if isinstance(x, (bool, np.bool_)):
        return bool(x)
    if isinstance(x, (int, np.integer)):
        return int(x)
    if isinstance(x, (float, np.floating)):
        x = float(x)
        if x != x:
            return None
        return 0.0 if x == 0 else x
    if isinstance(x, str):
        return x
    if isinstance(x, (pd.Timestamp,)):
        return ("T", int(x.value)) if x is not pd.NaT else None
    if isinstance(x, pd.Timedelta):
        return ("D", int(x.value))
    if x is pd.NaT or x is pd.NA:
        return None
    if isinstance(x, np.datetime64):
        v = x.astype("datetime64[ns]").astype("int64")
        return None if v == MIN_INT else ("T", int(v))
    if isinstance(x, np.timedelta64):
        v = x.astype("timedelta64[ns]").astype("int64")
        return None if v == MIN_INT else ("D", int(v))
    if isinstance(x, tuple):
        return tuple(_scalar(v) for v in x)
    if isinstance(x, (list, np.ndarray)):
        return [_scalar(v) for v in x]
    try:
        import datetime

        if isinstance(x, datetime.datetime):
            return ("T", int(pd.Timestamp(x).value))
        if isinstance(x, datetime.timedelta):
            return ("D", int(pd.Timedelta(x).value))
    except Exception:
        pass
    return repr(x)


def _array(a):
    """1-D array-like of values -> list of canonical scalars."""
    import pandas as pd

    if isinstance(a, (pd.Series, pd.Index)):
        dt = a.dtype
        if isinstance(dt, pd.CategoricalDtype):
            return [_scalar(v) for v in a.astype(object).tolist()]
        if getattr(dt, "kind", None) == "M" or isinstance(dt, pd.DatetimeTZDtype):
            vals = np.asarray(a.astype("datetime64[ns]") if not isinstance(dt, pd.DatetimeTZDtype) else a.dt.tz_convert(None) if isinstance(a, pd.Series) else a.tz_convert(None)).astype("datetime64[ns]").view("int64")
            return [None if v == MIN_INT else ("T", int(v)) for v in vals]
        if getattr(dt, "kind", None) == "m":
            vals = np.asarray(a).astype("timedelta64[ns]").view("int64")
            return [None if v == MIN_INT else ("D", int(v)) for v in vals]
        try:
            arr = a.to_numpy()
        except Exception:
            arr = np.asarray(a)
        return _array(arr)
    a = np.asarray(a)
    if a.ndim == 0:
        return [_scalar(a[()])]
    if a.ndim > 1:
        return [_array(r) for r in a]
    k = a.dtype.kind
    if k == "M":
        vals = a.astype("datetime64[ns]").view("int64")
        return [None if v == MIN_INT else ("T", int(v)) for v in vals]
    if k == "m":
        vals = a.astype("timedelta64[ns]").view("int64")
        return [None if v == MIN_INT else ("D", int(v)) for v in vals]
    if k == "f":
        return [None if v != v else (0.0 if v == 0 else float(v)) for v in a.tolist()]
    if k == "b":
        return [bool(v) for v in a.tolist()]
    if k in "iu":
        return [int(v) for v in a.tolist()]
    return [_scalar(v) for v in a.tolist()]


def _index(ix):
    import pandas as pd

    if isinstance(ix, pd.MultiIndex):
        levels = [_array(ix.get_level_values(i)) for i in range(ix.nlevels)]
        return {"names": [None if n is None else str(n) for n in ix.names], "labels": [tuple(t) for t in zip(*levels)] if len(ix) else []}
    return {"names": [None if ix.name is None else str(ix.name)], "labels": [(v,) for v in _array(ix)]}


def canon(obj):
    """Result of a public operation -> plain nested structure."""
    import pandas as pd
    import polars as pl

    if isinstance(obj, pd.Series):
        return {"t": "series", "index": _index(obj.index), "name": None if obj.name is None else str(obj.name), "cols": {"": _array(obj)}}
    if isinstance(obj, pd.DataFrame):
        cols = {}
        for j, c in enumerate(obj.columns):
            cols[str(c)] = _array(obj.iloc[:, j])
        return {"t": "frame", "index": _index(obj.index), "name": None, "cols": cols, "col_order": [str(c) for c in obj.columns]}
    if isinstance(obj, pl.Series):
        return {"t": "pl_series", "index": None, "name": obj.name, "cols": {"": _array(obj.to_pandas())}}
    if isinstance(obj, pl.DataFrame):
        return {"t": "pl_frame", "index": None, "name": None, "cols": {c: _array(obj[c].to_pandas()) for c in obj.columns}, "col_order": list(obj.columns)}
    if isinstance(obj, pd.Index):
        return {"t": "index", "index": _index(obj), "name": None, "cols": {}}
    if isinstance(obj, dict):
        return {"t": "dict", "items": [(_scalar(k), _array(v)) for k, v in obj.items()]}
    if isinstance(obj, np.ndarray):
        return {"t": "ndarray", "cols": {"": _array(obj)}, "index": None, "name": None}
    try:
        import pyarrow as pa

        if isinstance(obj, (pa.Array, pa.ChunkedArray)):
            # (never through repr(): it carries a memory address)
            return {"t": "ndarray", "cols": {"": _array(np.asarray(obj.to_numpy(zero_copy_only=False) if isinstance(obj, pa.Array) else obj.to_numpy()))}, "index": None, "name": None}
    except ImportError:
        pass
    if isinstance(obj, (pd.Categorical,)):
        return {"t": "ndarray", "cols": {"": [_scalar(v) for v in obj.astype(object).tolist()]}, "index": None, "name": None}
    return {"t": "scalar", "value": _scalar(obj)}


def _num_eq(a, b, tol):
    if a is None or b is None:
        return a is None and b is None
    if isinstance(a, bool) != isinstance(b, bool):
        return False
    if isinstance(a, (int, float)) and isinstance(b, (int, float)):
        if a == b:
            return True
        if tol and (isinstance(a, float) or isinstance(b, float)):
            return abs(float(a) - float(b)) <= tol
        return False
    if isinstance(a, tuple) and isinstance(b, tuple) and len(a) == 2 and a[0] in ("T", "D") and a[0] == b[0]:
        return a[1] == b[1] or (tol and abs(a[1] - b[1]) <= tol)
    if isinstance(a, (list, tuple)) and isinstance(b, (list, tuple)):
        return len(a) == len(b) and all(_num_eq(x, y, tol) for x, y in zip(a, b))
    return a == b


def _key(x):
    return repr(x)


def diff(a, b, tol=0.0, unordered=False, check_names=True):
    """None when canonical results a and b agree, else a short description.
    unordered: compare label -> row as a mapping (representation-level attributes)."""
    if a["t"] != b["t"]:
        return f"container {a['t']} vs {b['t']}"
    t = a["t"]
    if t == "scalar":
        return None if _num_eq(a["value"], b["value"], tol) else f"scalar {a['value']!r} vs {b['value']!r}"
    if t == "dict":
        ia, ib = a["items"], b["items"]
        if unordered:
            ia, ib = sorted(ia, key=lambda kv: _key(kv[0])), sorted(ib, key=lambda kv: _key(kv[0]))
        if [k for k, _ in ia] != [k for k, _ in ib]:
            return f"labels {[k for k, _ in ia]} vs {[k for k, _ in ib]}"
        for (k, va), (_, vb) in zip(ia, ib):
            if not _num_eq(va, vb, tol):
                return f"group {k!r}: {va} vs {vb}"
        return None
    if a.get("index") is not None or b.get("index") is not None:
        xa, xb = a["index"], b["index"]
        if (xa is None) != (xb is None):
            return "index presence"
        if check_names and xa["names"] != xb["names"]:
            return f"index names {xa['names']} vs {xb['names']}"
        la, lb = xa["labels"], xb["labels"]
        if unordered:
            oa = sorted(range(len(la)), key=lambda i: _key(la[i]))
            ob = sorted(range(len(lb)), key=lambda i: _key(lb[i]))
        else:
            oa, ob = list(range(len(la))), list(range(len(lb)))
        if [la[i] for i in oa] != [lb[i] for i in ob]:
            return f"labels {_short([la[i] for i in oa])} vs {_short([lb[i] for i in ob])}"
    else:
        n = len(next(iter(a["cols"].values()), []))
        m = len(next(iter(b["cols"].values()), []))
        oa, ob = list(range(n)), list(range(m))
        if n != m:
            return f"length {n} vs {m}"
    if t in ("frame", "pl_frame") and a.get("col_order") != b.get("col_order"):
        return f"columns {a.get('col_order')} vs {b.get('col_order')}"
    if check_names and t == "series" and a["name"] != b["name"]:
        return f"name {a['name']!r} vs {b['name']!r}"
    for c in a["cols"]:
        if c not in b["cols"]:
            return f"column {c!r} missing"
        va, vb = a["cols"][c], b["cols"][c]
        if len(va) != len(vb):
            return f"column {c!r}: length {len(va)} vs {len(vb)}"
        tl = tol.get(c, tol.get("", 0.0)) if isinstance(tol, dict) else tol
        for i, j in zip(oa, ob):
            if not _num_eq(va[i], vb[j], tl):
                return f"column {c!r} row {i}: {va[i]!r} vs {vb[j]!r}"
    return None


def _short(x, lim=160):
    s = repr(x)
    return s if len(s) <= lim else s[:lim] + "..."


def short(x, lim=300):
    return _short(x, lim)


def msg(e, lim=160):
    """Exception text for reports and digests, with memory addresses removed (a message
    such as "... applying <function f at 0x7f...>" differs from process to process)."""
    import re

    return re.sub(r"0x[0-9a-fA-F]+", "0x?", str(e))[:lim]
