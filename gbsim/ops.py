"""The catalogue of public operations used by the public-API checks, as plain
descriptors drawn from the scenario stream, and their execution on a GroupBy."""

from __future__ import annotations

import warnings

import numpy as np

from .choices import Choices

BASIC = ["sum", "size", "count", "mean", "min", "max", "first", "last"]
# (density is left out: it needs margins, and add_row_margin imports pandas.core.reshape.util,
#  which the installed pandas no longer has -- every margins call raises ModuleNotFoundError in
#  this environment, after the kernels have run; margins are therefore drawn rarely)
COMPOSITE = ["var", "std", "median", "quantile", "apply", "agg", "ratio", "subset_ratio"]
ROWWISE = ["cumsum", "cummin", "cummax", "cumcount", "rolling_sum", "rolling_mean", "rolling_min", "rolling_max", "shift", "diff", "ema", "ema_timed"]
SELECT = ["head", "tail", "nth", "groups", "key_count", "result_index", "ngroups", "group_nearby_members", "crosstab", "value_counts"]
FAMILIES = {"basic": BASIC, "composite": COMPOSITE, "rowwise": ROWWISE, "select": SELECT}

# operations whose result legitimately depends on summation order (tolerance applies)
SUM_LIKE = {"sum", "mean", "var", "std", "agg", "ratio", "subset_ratio", "density", "crosstab"}
# quotients of aggregates: no absolute rounding bound is meaningful, so they run on exactly
# summable data only (sanitize) and are compared exactly
DIVIDING = {"ratio", "subset_ratio", "density"}
# raw representation-level attributes: compared as mappings, not by position
UNORDERED = {"result_index", "key_count"}
# layout-changing operations on chunked keys (for C13 coverage / probes)
UNIFYING = {"groups", "median", "quantile", "apply", "head", "tail", "nth", "cumsum", "cummin", "cummax", "cumcount", "rolling_sum", "rolling_mean", "rolling_min", "rolling_max", "shift", "diff"}


def _spread(x):
    return float(np.max(x) - np.min(x)) if len(x) else float("nan")


def _demean(x):
    """Input-aligned (non-reducing) user function."""
    x = np.asarray(x, dtype=np.float64)
    return x - (np.nanmean(x) if np.isfinite(x).any() else 0.0)


def _first_two(x):
    out = np.full(2, np.nan)
    out[: min(2, len(x))] = x[:2]
    return out


def gen_op(s: Choices, family: str, ds, mask_kinds=("none", "bool", "slice", "positions")):
    from . import gen

    names = FAMILIES[family]
    name = names[s.draw(len(names))]
    op = {"op": name}
    ncols = len(ds["cols"])
    # which columns
    if ncols > 1 and s.draw(3) == 0:
        op["cols"] = [s.draw(ncols)]
    else:
        op["cols"] = list(range(ncols))
    if name in BASIC or name in ("var", "std", "agg"):
        op["transform"] = s.chance(1, 4)
        op["observed_only"] = not s.chance(1, 6)
        op["mask"] = gen.gen_mask(s, ds, mask_kinds)
        if name in ("var", "std"):
            op["ddof"] = s.weighted([(3, 1), (1, 0)])
        if name == "agg":
            op["funcs"] = [["sum", "max"], ["min", "count"], ["mean", "first"], ["last", "sum"], "sum", "max", "mean"][s.draw(7)]
            if isinstance(op["funcs"], list):
                op["cols"] = [op["cols"][0]]
                # (several reductions in one call: anything they share on the object -- the lazily
                #  unified key above all -- is touched by each of them; seeded change C03-j)
                if not op["transform"]:
                    op["transform"] = s.chance(1, 3)
        if name not in ("var", "std") and not op["transform"] and s.chance(1, 16):
            # 'All' rows; for several keys also for chosen levels only
            nk = len(ds["key_kinds"])
            op["margins"] = True if nk == 1 else [True, [0], [1]][s.draw(3)]
    elif name in ("ratio", "subset_ratio", "density"):
        op["cols"] = [op["cols"][0]]
        op["mask"] = gen.gen_mask(s, ds, ("none", "bool", "bool") if name != "ratio" else mask_kinds)
        op["margins"] = s.chance(1, 8)
        if name != "density":
            op["agg_func"] = ["sum", "mean", "max"][s.draw(3)]
        else:
            op["sizes"] = s.chance(1, 3)  # density of the group sizes (values=None)
        if name == "subset_ratio":
            op["subset"] = [bool(s.draw(2)) for _ in range(ds["n"])]
    elif name in ("crosstab", "value_counts"):
        op["cols"] = [op["cols"][0]]
        op["mask"] = gen.gen_mask(s, ds, ("none", "bool"))
        if name == "crosstab":
            op["aggfunc"] = [None, "sum", "mean", "max", "count"][s.draw(5)]  # None: sizes
            op["margins"] = [False, False, False, False, True, "row", "column"][s.draw(7)]
        else:
            op["normalize"] = s.chance(1, 3)
    elif name in ("median", "quantile", "apply"):
        op["transform"] = name != "quantile" and s.chance(1, 4)
        op["mask"] = gen.gen_mask(s, ds, tuple(k for k in mask_kinds if k in ("none", "bool")))
        if name == "quantile":
            op["q"] = [[0.5], [0.25, 0.75], [0.0, 1.0]][s.draw(3)]
        if name == "apply":
            op["func"] = s.weighted([(3, "spread"), (1, "first_two"), (1, "raises"), (2, "demean")])
            if op["func"] != "spread":
                op["transform"] = False
    elif name in ("cumsum", "cummin", "cummax"):
        op["mask"] = gen.gen_mask(s, ds, tuple(k for k in mask_kinds if k in ("none", "bool")))
        op["skip_na"] = not s.chance(1, 4)
    elif name == "cumcount":
        op["mask"] = gen.gen_mask(s, ds, tuple(k for k in mask_kinds if k in ("none", "bool")))
    elif name.startswith("rolling_") or name in ("shift", "diff"):
        op["mask"] = gen.gen_mask(s, ds, tuple(k for k in mask_kinds if k in ("none", "bool")))
        op["window"] = 1 + s.draw(3)
        if name in ("shift", "diff") and s.chance(1, 6):
            op["window"] = 0  # degenerate: the result could be (a view of) the input
        if name.startswith("rolling_"):
            op["min_periods"] = [None, 1, op["window"]][s.draw(3)]
            op["ibg"] = s.chance(1, 5)  # index_by_groups: goes through the group-sorted indexer
    elif name in ("ema", "ema_timed"):
        op["mask"] = gen.gen_mask(s, ds, tuple(k for k in mask_kinds if k in ("none", "bool")))
        op["ibg"] = s.chance(1, 5)
        if name == "ema":
            op["alpha"] = [0.5, 0.25, 1.0][s.draw(3)]
        else:
            op["halflife"] = ["2s", "500ms"][s.draw(2)]
            op["steps"] = [1 + s.draw(3) for _ in range(ds["n"])]
            # where the timestamps lie relative to the epoch (dates before 1970 and integer
            # clocks starting at zero are ordinary inputs; seeded change C19-i lives there)
            op["epoch"] = s.weighted([(4, "2024"), (1, "zero"), (1, "pre1970")])
    elif name in ("head", "tail", "nth"):
        # n beyond the largest group selects every row (pandas may then hand out a view)
        op["n"] = [0, 1, 2, 3, 1000][s.draw(5)] if name != "nth" else s.draw(4) - 1
        op["keep_input_index"] = not s.chance(1, 5)
    elif name == "group_nearby_members":
        op["max_diff"] = 1 + s.draw(3)
        op["cols"] = [op["cols"][0]]
    if s.chance(1, 5):
        _to_facade(op, s)
    return op


def _to_facade(op, s):
    """Route the operation through the pandas-style facade (api.SeriesGroupBy /
    DataFrameGroupBy wrapped around the GroupBy under test) where the facade can express
    it; options the facade does not have are set to its defaults."""
    name = op["op"]
    if name in BASIC or name in ("var", "std"):
        op["transform"], op["observed_only"] = False, True
        if name not in ("sum", "mean", "min", "max"):
            op.pop("margins", None)
    elif name == "agg":
        op.pop("margins", None)
        if not isinstance(op["funcs"], str):
            return
        op["transform"], op["observed_only"] = False, True
        op.pop("mask", None)  # facade agg(str) takes no mask
    elif name in ("median", "apply"):
        op["transform"] = False
    elif name == "quantile":
        pass
    elif name in ("cumsum", "cummin", "cummax"):
        op.pop("mask", None)
        op["skip_na"] = True
    elif name.startswith("rolling_"):
        if op["min_periods"] is None:
            op["min_periods"] = op["window"]
    elif name in ("ema", "ema_timed"):
        pass
    elif name in ("head", "tail", "nth"):
        op["keep_input_index"] = False
    elif name in ("groups", "ngroups"):
        pass
    else:
        return
    op["via"] = "api"
    # column selection on a frame facade: none / gb[col] / gb[[all cols]] / gb[[all but the last]] /
    # gb[[all but the first]] (proper subsets: what the parent facade computed or cached for ALL its
    # columns must not come back through a selection; seeded change C13-k)
    op["api_select"] = s.weighted([(2, 0), (2, 1), (1, 2), (2, 3), (1, 4)])


def op_mask(op):
    return op.get("mask", {"kind": "none"})


def build_times(ds, op):
    steps = op["steps"]
    base = np.datetime64("2024-01-01T00:00:00", "ns").astype("int64")
    t = base + np.cumsum(np.array(steps, dtype="int64")) * 1_000_000_000
    epoch = op.get("epoch", "2024")
    if epoch == "zero":
        t = t - t[0] if len(t) else t
    elif epoch == "pre1970":
        t = t - base - np.int64(86_400_000_000_000) * 365 * 20
    return t.view("datetime64[ns]")


def _pandas_col(v, name=None):
    """A value column as something the facade accepts inside a frame (zero-copy)."""
    import pandas as pd
    import polars as pl
    import pyarrow as pa

    if isinstance(v, pd.Series):
        return v
    if isinstance(v, np.ndarray) and v.ndim == 1:
        return pd.Series(v, name=name, copy=False)
    if isinstance(v, pl.Series):
        v = v.to_arrow()
    if isinstance(v, pa.Array):
        v = pa.chunked_array([v])
    if isinstance(v, pa.ChunkedArray):
        return pd.Series(pd.arrays.ArrowExtensionArray(v), name=name)
    return None


def facade_for(target, values, wrappers=None, tag=None):
    """SeriesGroupBy / DataFrameGroupBy around `target` for these value objects, or None
    when the facade cannot hold them.  `wrappers` (a list owned by the simulated client)
    keeps facades alive and reuses them, the way `gb = df.groupby_fast(...)` is reused."""
    import pandas as pd
    import polars as pl
    from groupby_lib.groupby.api import DataFrameGroupBy, SeriesGroupBy

    if wrappers is not None:
        for t, v, tg, w in wrappers:
            if t is target and v is values and tg == tag:
                return w
    w = None
    if isinstance(values, (pd.Series, pl.Series)):
        w = SeriesGroupBy(values, grouper=target)
    elif isinstance(values, (pd.DataFrame, pl.DataFrame)):
        w = DataFrameGroupBy(values, grouper=target)
    elif isinstance(values, dict):
        cols = {k: _pandas_col(v, k) for k, v in values.items()}
        if all(c is not None for c in cols.values()) and len({len(c) for c in cols.values()}) == 1:
            ixs = [c.index for c in cols.values()]
            if all(ix.equals(ixs[0]) for ix in ixs[1:]):
                w = DataFrameGroupBy(pd.DataFrame(cols, copy=False), grouper=target)
    else:
        col = _pandas_col(values)
        if col is not None:
            w = SeriesGroupBy(col, grouper=target)
    if w is not None and wrappers is not None:
        wrappers.append((target, values, tag, w))
    return w


def _call_facade(w, op, mask, ds, times, wrappers=None):
    from groupby_lib.groupby.api import DataFrameGroupBy

    name = op["op"]
    w0 = w
    if isinstance(w, DataFrameGroupBy) and op.get("api_select"):
        cols = list(w.value_columns)
        sel = op["api_select"]
        if sel == 1:
            w = w[cols[0]]
        elif sel == 2 or len(cols) < 2:
            w = w[cols]
        else:
            w = w[cols[:-1]] if sel == 3 else w[cols[1:]]
    if name == "size":
        return w.size(mask=mask)
    if name in ("sum", "mean", "min", "max"):
        return getattr(w, name)(mask=mask, margins=op.get("margins", False))
    if name in BASIC:
        return getattr(w, name)(mask=mask)
    if name in ("var", "std"):
        return getattr(w, name)(ddof=op["ddof"], mask=mask)
    if name == "agg":
        return w.agg(op["funcs"])
    if name == "median":
        return w.median(mask=mask)
    if name == "quantile":
        return w.quantile(op["q"], mask=mask)
    if name == "apply":
        fn = {"spread": _spread, "first_two": _first_two, "raises": _raises, "demean": _demean}[op["func"]]
        return w.apply(fn, mask)
    if name in ("cumsum", "cummin", "cummax"):
        return getattr(w, name)()
    if name.startswith("rolling_"):
        # `r = gb.rolling(3)` is an object of its own which the client keeps and reuses
        r, key = None, ("rolling", op["window"], op["min_periods"], op.get("api_select", 0))
        if wrappers is not None:
            for t_, v_, tg_, obj_ in wrappers:
                if t_ is w0 and v_ is None and tg_ == key:
                    r = obj_
        if r is None:
            r = w.rolling(op["window"], op["min_periods"])
            if wrappers is not None:
                wrappers.append((w0, None, key, r))
        return getattr(r, name[len("rolling_"):])(mask=mask, index_by_groups=op.get("ibg", False))
    if name == "ema":
        return w.ema(alpha=op["alpha"], mask=mask, index_by_groups=op.get("ibg", False))
    if name == "ema_timed":
        return w.ema(halflife=op["halflife"], times=build_times(ds, op) if times is None else times, mask=mask, index_by_groups=op.get("ibg", False))
    if name in ("head", "tail", "nth"):
        return getattr(w, name)(op["n"])
    if name in ("groups", "ngroups"):
        return getattr(w, name)
    raise AssertionError(name)


def _denominator(ds, op):
    """A second value column with the same nullity as the first: |x| + 1."""
    from . import gen

    a = gen.col_array(ds["cols"][op["cols"][0]])
    if a.dtype.kind == "f":
        return np.abs(a) + a.dtype.type(1)
    if a.dtype.kind in "iu":
        return np.abs(a) + a.dtype.type(1)
    return a.copy()


def call_op(gb, op, values, mask, ds, class_form_keys=None, times=None, wrappers=None, wrapper_tag=None, raw_keys=None, subset_mask=None):
    """Execute `op` on GroupBy `gb` (or in class form on raw keys, or through the
    pandas-style facade wrapped around `gb` when the op says so)."""
    from groupby_lib.groupby.core import GroupBy

    name = op["op"]
    target = gb
    if op.get("via") == "api" and class_form_keys is None:
        with warnings.catch_warnings():
            warnings.simplefilter("ignore")
            with np.errstate(all="ignore"):
                w = facade_for(gb, values, wrappers, wrapper_tag)
                if w is not None:
                    return _call_facade(w, op, mask, ds, times, wrappers)

    def m(method, *a, **k):
        if class_form_keys is not None:
            return getattr(GroupBy, method)(class_form_keys, *a, **k)
        return getattr(target, method)(*a, **k)

    with warnings.catch_warnings():
        warnings.simplefilter("ignore")
        with np.errstate(all="ignore"):
            mg = {"margins": op["margins"]} if op.get("margins") else {}
            if name == "size":
                return m("size", mask=mask, transform=op["transform"], observed_only=op["observed_only"], **mg)
            if name in BASIC:
                return m(name, values, mask=mask, transform=op["transform"], observed_only=op["observed_only"], **mg)
            if name in ("var", "std"):
                return m(name, values, mask=mask, transform=op["transform"], ddof=op["ddof"], observed_only=op["observed_only"])
            if name == "agg":
                return m("agg", values, op["funcs"], mask=mask, transform=op["transform"], observed_only=op["observed_only"], **mg)
            if name == "ratio":
                return m("ratio", values, _denominator(ds, op), mask=mask, agg_func=op["agg_func"], margins=op["margins"])
            if name == "subset_ratio":
                sub = np.array(op["subset"], dtype=bool) if subset_mask is None else subset_mask
                return m("subset_ratio", values, sub, global_mask=mask, agg_func=op["agg_func"], margins=op["margins"])
            if name == "density":
                return m("density", None if op["sizes"] else values, mask=mask, margins=op["margins"])
            if name in ("crosstab", "value_counts"):
                from groupby_lib.groupby import core as _core

                keys = class_form_keys if class_form_keys is not None else raw_keys
                if keys is None:
                    raise NotImplementedError("no raw keys at hand for a module-level function")
                klist = list(keys.values()) if isinstance(keys, dict) else (list(keys) if isinstance(keys, list) else [keys])
                if name == "value_counts":
                    return _core.value_counts(klist[0] if len(klist) == 1 else klist, normalize=op["normalize"], mask=mask)
                index, columns = (klist[0], klist[1]) if len(klist) >= 2 else (klist[0], klist[0])
                import pyarrow as pa

                if any(isinstance(k_, (pa.Array, pa.ChunkedArray)) for k_ in klist) and any(c_ < 0 for kc_ in ds["key_codes"] for c_ in kc_):
                    # several keys take the Arrow factorizer, for which a float NaN inside an Arrow
                    # container is a value, not a null (Arrow's own convention; the single-key chunked
                    # route reads it as null): which is meant is a container matter (C12), not a
                    # strategy matter, so null keys in Arrow containers are kept out of crosstab
                    raise NotImplementedError("null keys inside Arrow containers in a several-key grouping")
                if op["aggfunc"] is None:
                    return _core.crosstab(index, columns, mask=mask, margins=op["margins"])
                return _core.crosstab(index, columns, values, aggfunc=op["aggfunc"], mask=mask, margins=op["margins"])
            if name == "median":
                return m("median", values, mask=mask, transform=op["transform"])
            if name == "quantile":
                return m("quantile", values, op["q"], mask=mask)
            if name == "apply":
                fn = {"spread": _spread, "first_two": _first_two, "raises": _raises, "demean": _demean}[op["func"]]
                if class_form_keys is not None:
                    return GroupBy.apply(class_form_keys, values, fn, mask, op["transform"])
                return target.apply(values, fn, mask=mask, transform=op["transform"])
            if name in ("cumsum", "cummin", "cummax"):
                return m(name, values, mask=mask, skip_na=op["skip_na"])
            if name == "cumcount":
                return m("cumcount", mask=mask)
            if name.startswith("rolling_"):
                return m(name, values, window=op["window"], min_periods=op["min_periods"], mask=mask, index_by_groups=op.get("ibg", False))
            if name in ("shift", "diff"):
                return m(name, values, window=op["window"], mask=mask)
            if name == "ema":
                return m("ema", values, alpha=op["alpha"], mask=mask, index_by_groups=op.get("ibg", False))
            if name == "ema_timed":
                return m("ema", values, halflife=op["halflife"], times=build_times(ds, op) if times is None else times, mask=mask, index_by_groups=op.get("ibg", False))
            if name in ("head", "tail", "nth"):
                return m(name, values, op["n"], keep_input_index=op["keep_input_index"])
            if name == "group_nearby_members":
                return m("group_nearby_members", values, op["max_diff"])
            if name in ("groups", "key_count", "result_index", "ngroups"):
                if class_form_keys is not None:
                    target = GroupBy(class_form_keys)
                return getattr(target, name)
    raise AssertionError(name)


class UserFunctionError(ValueError):
    pass


def _raises(x):
    raise UserFunctionError("user function failed")


def tolerance(op, ds, rows):
    """Absolute tolerance per result column for summation-order dependent ops:
    4*n*u*sum|x| over the selected rows (sum, mean), the sum-of-squares analogue
    for var/std; 0 for everything else and for exactly-summable data."""
    from . import gen

    name = op["op"]
    if name not in SUM_LIKE:
        return 0.0
    tol = {}
    for c in op["cols"]:
        col = ds["cols"][c]
        if not (col["dtype"].startswith("float") and col["arb"]):
            t = 0.0
        else:
            arr = gen.col_array(col).astype(np.float64)
            sel = arr[rows] if len(rows) else arr[:0]
            sel = sel[np.isfinite(sel)]  # infinities compare exactly
            n = max(len(sel), 1)
            u = 2.0**-24 if col["dtype"] == "float32" else 2.0**-53
            s1 = float(np.abs(sel).sum())
            s2 = float((sel**2).sum())
            if name in ("sum", "mean", "agg", "crosstab"):
                t = 4 * n * u * s1
            elif name == "var":
                t = 8 * n * u * (s2 + s1 * s1)
            else:
                t = float(np.sqrt(8 * n * u * (s2 + s1 * s1)))
        tol[col["name"]] = t
        tol[""] = max(tol.get("", 0.0), t)
        tol[f"_arr_{c}"] = t
    if name == "agg":
        t = tol.get("", 0.0)
        for f in op.get("funcs", []) if isinstance(op.get("funcs"), list) else []:
            tol[f] = t
    return tol


def sanitize(ds, op):
    """int64 columns and summation: sum/mean choose the null convention for int64.min
    from the container (ndarray: a number) while the chunk merge and every other
    reduction treat it as null.  The properties do not say which is meant, so
    int64.min is kept out of int64 columns for summation-order operations."""
    if op["op"] not in SUM_LIKE:
        return ds
    cols = []
    changed = False
    for c, col in enumerate(ds["cols"]):
        if c in op["cols"] and col["dtype"] == "int64" and 1 in col["idx"]:
            col = dict(col, idx=[0 if i == 1 else i for i in col["idx"]])
            changed = True
        if c in op["cols"] and op["op"] in DIVIDING and col.get("arb"):
            col = dict(col, arb=False)  # quotients: exactly summable data only
            changed = True
        cols.append(col)
    if not changed:
        return ds
    return dict(ds, cols=cols)
