"""The catalogue of public operations used by the public-API checks, as plain
descriptors drawn from the scenario stream, and their execution on a GroupBy."""

from __future__ import annotations

import warnings

import numpy as np

from .choices import Choices

BASIC = ["sum", "size", "count", "mean", "min", "max", "first", "last"]
COMPOSITE = ["var", "std", "median", "quantile", "apply", "agg"]
ROWWISE = ["cumsum", "cummin", "cummax", "cumcount", "rolling_sum", "rolling_mean", "rolling_min", "rolling_max", "shift", "diff", "ema", "ema_timed"]
SELECT = ["head", "tail", "nth", "groups", "key_count", "result_index", "ngroups", "group_nearby_members"]
FAMILIES = {"basic": BASIC, "composite": COMPOSITE, "rowwise": ROWWISE, "select": SELECT}

# operations whose result legitimately depends on summation order (tolerance applies)
SUM_LIKE = {"sum", "mean", "var", "std", "agg"}
# raw representation-level attributes: compared as mappings, not by position
UNORDERED = {"result_index", "key_count"}
# layout-changing operations on chunked keys (for C13 coverage / probes)
UNIFYING = {"groups", "median", "quantile", "apply", "head", "tail", "nth", "cumsum", "cummin", "cummax", "cumcount", "rolling_sum", "rolling_mean", "rolling_min", "rolling_max", "shift", "diff"}


def _spread(x):
    return float(np.max(x) - np.min(x)) if len(x) else float("nan")


def _demean(x):
    """Input-aligned (non-reducing) user function."""
    x = np.asarray(x, dtype=np.float64)
    return x - (np.nanmean(x) if np.isfinite(x).any() else 0.0)


def _first_two(x):
    out = np.full(2, np.nan)
    out[: min(2, len(x))] = x[:2]
    return out


def gen_op(s: Choices, family: str, ds, mask_kinds=("none", "bool", "slice", "positions")):
    from . import gen

    names = FAMILIES[family]
    name = names[s.draw(len(names))]
    op = {"op": name}
    ncols = len(ds["cols"])
    # which columns
    if ncols > 1 and s.draw(3) == 0:
        op["cols"] = [s.draw(ncols)]
    else:
        op["cols"] = list(range(ncols))
    if name in BASIC or name in ("var", "std", "agg"):
        op["transform"] = s.chance(1, 4)
        op["observed_only"] = not s.chance(1, 6)
        op["mask"] = gen.gen_mask(s, ds, mask_kinds)
        if name in ("var", "std"):
            op["ddof"] = s.weighted([(3, 1), (1, 0)])
        if name == "agg":
            op["funcs"] = [["sum", "max"], ["min", "count"], ["mean", "first"], ["last", "sum"], "sum", "max", "mean"][s.draw(7)]
            if isinstance(op["funcs"], list):
                op["cols"] = [op["cols"][0]]
    elif name in ("median", "quantile", "apply"):
        op["transform"] = name != "quantile" and s.chance(1, 4)
        op["mask"] = gen.gen_mask(s, ds, tuple(k for k in mask_kinds if k in ("none", "bool")))
        if name == "quantile":
            op["q"] = [[0.5], [0.25, 0.75], [0.0, 1.0]][s.draw(3)]
        if name == "apply":
            op["func"] = s.weighted([(3, "spread"), (1, "first_two"), (1, "raises"), (2, "demean")])
            if op["func"] != "spread":
                op["transform"] = False
    elif name in ("cumsum", "cummin", "cummax"):
        op["mask"] = gen.gen_mask(s, ds, tuple(k for k in mask_kinds if k in ("none", "bool")))
        op["skip_na"] = not s.chance(1, 4)
    elif name == "cumcount":
        op["mask"] = gen.gen_mask(s, ds, tuple(k for k in mask_kinds if k in ("none", "bool")))
    elif name.startswith("rolling_") or name in ("shift", "diff"):
        op["mask"] = gen.gen_mask(s, ds, tuple(k for k in mask_kinds if k in ("none", "bool")))
        op["window"] = 1 + s.draw(3)
        if name in ("shift", "diff") and s.chance(1, 6):
            op["window"] = 0  # degenerate: the result could be (a view of) the input
        if name.startswith("rolling_"):
            op["min_periods"] = [None, 1, op["window"]][s.draw(3)]
            op["ibg"] = s.chance(1, 5)  # index_by_groups: goes through the group-sorted indexer
    elif name in ("ema", "ema_timed"):
        op["mask"] = gen.gen_mask(s, ds, tuple(k for k in mask_kinds if k in ("none", "bool")))
        op["ibg"] = s.chance(1, 5)
        if name == "ema":
            op["alpha"] = [0.5, 0.25, 1.0][s.draw(3)]
        else:
            op["halflife"] = ["2s", "500ms"][s.draw(2)]
            op["steps"] = [1 + s.draw(3) for _ in range(ds["n"])]
    elif name in ("head", "tail", "nth"):
        # n beyond the largest group selects every row (pandas may then hand out a view)
        op["n"] = [0, 1, 2, 3, 1000][s.draw(5)] if name != "nth" else s.draw(4) - 1
        op["keep_input_index"] = not s.chance(1, 5)
    elif name == "group_nearby_members":
        op["max_diff"] = 1 + s.draw(3)
        op["cols"] = [op["cols"][0]]
    return op


def op_mask(op):
    return op.get("mask", {"kind": "none"})


def build_times(ds, op):
    steps = op["steps"]
    base = np.datetime64("2024-01-01T00:00:00", "ns").astype("int64")
    t = base + np.cumsum(np.array(steps, dtype="int64")) * 1_000_000_000
    return t.view("datetime64[ns]")


def call_op(gb, op, values, mask, ds, class_form_keys=None, times=None):
    """Execute `op` on GroupBy `gb` (or in class form on raw keys)."""
    from groupby_lib.groupby.core import GroupBy

    name = op["op"]
    target = gb

    def m(method, *a, **k):
        if class_form_keys is not None:
            return getattr(GroupBy, method)(class_form_keys, *a, **k)
        return getattr(target, method)(*a, **k)

    with warnings.catch_warnings():
        warnings.simplefilter("ignore")
        with np.errstate(all="ignore"):
            if name == "size":
                return m("size", mask=mask, transform=op["transform"], observed_only=op["observed_only"])
            if name in BASIC:
                return m(name, values, mask=mask, transform=op["transform"], observed_only=op["observed_only"])
            if name in ("var", "std"):
                return m(name, values, mask=mask, transform=op["transform"], ddof=op["ddof"], observed_only=op["observed_only"])
            if name == "agg":
                return m("agg", values, op["funcs"], mask=mask, transform=op["transform"], observed_only=op["observed_only"])
            if name == "median":
                return m("median", values, mask=mask, transform=op["transform"])
            if name == "quantile":
                return m("quantile", values, op["q"], mask=mask)
            if name == "apply":
                fn = {"spread": _spread, "first_two": _first_two, "raises": _raises, "demean": _demean}[op["func"]]
                if class_form_keys is not None:
                    return GroupBy.apply(class_form_keys, values, fn, mask, op["transform"])
                return target.apply(values, fn, mask=mask, transform=op["transform"])
            if name in ("cumsum", "cummin", "cummax"):
                return m(name, values, mask=mask, skip_na=op["skip_na"])
            if name == "cumcount":
                return m("cumcount", mask=mask)
            if name.startswith("rolling_"):
                return m(name, values, window=op["window"], min_periods=op["min_periods"], mask=mask, index_by_groups=op.get("ibg", False))
            if name in ("shift", "diff"):
                return m(name, values, window=op["window"], mask=mask)
            if name == "ema":
                return m("ema", values, alpha=op["alpha"], mask=mask, index_by_groups=op.get("ibg", False))
            if name == "ema_timed":
                return m("ema", values, halflife=op["halflife"], times=build_times(ds, op) if times is None else times, mask=mask, index_by_groups=op.get("ibg", False))
            if name in ("head", "tail", "nth"):
                return m(name, values, op["n"], keep_input_index=op["keep_input_index"])
            if name == "group_nearby_members":
                return m("group_nearby_members", values, op["max_diff"])
            if name in ("groups", "key_count", "result_index", "ngroups"):
                if class_form_keys is not None:
                    target = GroupBy(class_form_keys)
                return getattr(target, name)
    raise AssertionError(name)


class UserFunctionError(ValueError):
    pass


def _raises(x):
    raise UserFunctionError("user function failed")


def tolerance(op, ds, rows):
    """Absolute tolerance per result column for summation-order dependent ops:
    4*n*u*sum|x| over the selected rows (sum, mean), the sum-of-squares analogue
    for var/std; 0 for everything else and for exactly-summable data."""
    from . import gen

    name = op["op"]
    if name not in SUM_LIKE:
        return 0.0
    tol = {}
    for c in op["cols"]:
        col = ds["cols"][c]
        if not (col["dtype"].startswith("float") and col["arb"]):
            t = 0.0
        else:
            arr = gen.col_array(col).astype(np.float64)
            sel = arr[rows] if len(rows) else arr[:0]
            sel = sel[np.isfinite(sel)]  # infinities compare exactly
            n = max(len(sel), 1)
            u = 2.0**-24 if col["dtype"] == "float32" else 2.0**-53
            s1 = float(np.abs(sel).sum())
            s2 = float((sel**2).sum())
            if name in ("sum", "mean", "agg"):
                t = 4 * n * u * s1
            elif name == "var":
                t = 8 * n * u * (s2 + s1 * s1)
            else:
                t = float(np.sqrt(8 * n * u * (s2 + s1 * s1)))
        tol[col["name"]] = t
        tol[""] = max(tol.get("", 0.0), t)
        tol[f"_arr_{c}"] = t
    if name == "agg":
        t = tol.get("", 0.0)
        for f in op.get("funcs", []) if isinstance(op.get("funcs"), list) else []:
            tol[f] = t
    return tol


def sanitize(ds, op):
    """int64 columns and summation: sum/mean choose the null convention for int64.min
    from the container (ndarray: a number) while the chunk merge and every other
    reduction treat it as null.  The properties do not say which is meant, so
    int64.min is kept out of int64 columns for summation-order operations."""
    if op["op"] not in SUM_LIKE:
        return ds
    cols = []
    changed = False
    for c, col in enumerate(ds["cols"]):
        if c in op["cols"] and col["dtype"] == "int64" and 1 in col["idx"]:
            col = dict(col, idx=[0 if i == 1 else i for i in col["idx"]])
            changed = True
        cols.append(col)
    if not changed:
        return ds
    return dict(ds, cols=cols)
