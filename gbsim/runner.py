"""Batch driver: seeded search over scenarios, schedules and fault plans across
many simulated runs, on a set of single-process worker pools (one pool per JIT
shard), with known-finding handling, shrinking, replay files and evidence.

Exit codes of a check: 0 held; 1 violation (a line `VIOLATION property=<id>
replay=<path>` is printed); 2 harness error (never reported as a violation and
never as success); 3 replay mismatch (`./check replay` only).
"""

from __future__ import annotations

import faulthandler
import hashlib
import importlib
import json
import multiprocessing as mp
import os
import sys
import time
import traceback
from collections import Counter
from concurrent.futures import ProcessPoolExecutor, TimeoutError as FutTimeout
from concurrent.futures.process import BrokenProcessPool

from . import DEFAULT_SEED, GUARD_ENV
from .choices import Choices, derive_seed, shrink

ROOT = os.path.dirname(os.path.dirname(os.path.abspath(__file__)))
PROP_MODULES = {"C03": "c03", "C04": "c04", "C13": "c13", "C19": "c19", "C20": "c20"}
LEVEL = "exploration"


def prop_module(prop: str):
    return importlib.import_module(f"gbsim.{PROP_MODULES[prop]}")


def site_hash(site: dict) -> str:
    return hashlib.sha256(json.dumps(site, sort_keys=True, default=str).encode()).hexdigest()[:12]


# ---------------------------------------------------------------------------
# worker side
# ---------------------------------------------------------------------------

_WORKER_READY = False


def _worker_init():
    global _WORKER_READY
    if _WORKER_READY:
        return
    sys.path.insert(0, ROOT) if ROOT not in sys.path else None
    from . import seams

    seams.install()
    import warnings

    warnings.simplefilter("ignore")  # numpy/pandas RuntimeWarnings of the library under test
    faulthandler.enable()
    _WORKER_READY = True


def _arm(seconds):
    faulthandler.cancel_dump_traceback_later()
    if seconds:
        faulthandler.dump_traceback_later(seconds, exit=True)


REPLAY_FORMAT = 2  # 2: replay files carry the decoded scenario and are executed from it


def run_single(prop, cls, cfg, scen, sched: Choices, scenario=None):
    """One simulated run; always restores the null context and real knobs.
    With `scenario` (a decoded scenario from a replay file) generation is skipped:
    such files stay valid when the generator's grammar changes."""
    from . import executor, seams

    mod = prop_module(prop)
    try:
        if scenario is not None:
            return mod.execute(scenario, sched, cls, cfg)
        return mod.run_one(scen, sched, cls, cfg)
    finally:
        executor.set_context(None)
        seams.set_knobs()


def job_batch(prop, seed, cls, cfg, run_indices, timeout_s):
    """Execute a batch of runs of one class.  Returns an aggregate."""
    _worker_init()
    _arm(timeout_s)
    import numpy as np

    t0 = time.time()
    agg = {
        "n": 0,
        "nontrivial_digests": [],
        "interleavings": [],
        "probes": Counter(),
        "faults": Counter(),
        "ticks": 0,
        "pools": 0,
        "violations": [],
        "n_violating_runs": 0,
        "site_counts": Counter(),
        "samples": [],
        "digests": {},
        "known_seen": Counter(),
        "states": set(),
        "transitions": set(),
        "fault_sites": set(),
        "preempt_sites": set(),
        "preemptions": 0,
    }
    per_site_kept = Counter()
    known = [e for e in load_known() if e["property"] == prop]
    for i in run_indices:
        scen = Choices(seed=derive_seed(seed, prop, "scen", i))
        sched = Choices(seed=derive_seed(seed, prop, "sched", i))
        c = dict(cfg)
        c["fault_mode"] = bool(cfg.get("fault_every")) and (i - cfg.get("class_offset", 0)) % cfg["fault_every"] == cfg["fault_every"] - 1
        c["want_sample"] = len(agg["samples"]) < cfg.get("samples_per_job", 0)
        c["run_index"] = i
        try:
            rec = run_single(prop, cls, c, scen, sched)
        except Exception as e:  # harness error inside a run: never a verdict
            return {"error": f"run {i} of {prop} class {cls}: {type(e).__name__}: {e}\n{traceback.format_exc()}"}
        agg["n"] += 1
        if rec.get("nontrivial"):
            agg["nontrivial_digests"].append(int(rec["digest"], 16))
        for h in rec.get("interleavings", ()):
            agg["interleavings"].append(int(h, 16))
        agg["probes"].update(rec.get("probes", ()))
        agg["states"].update(rec.get("states", ()))
        agg["transitions"].update(rec.get("transitions", ()))
        agg["faults"].update(rec.get("faults", ()))
        agg["fault_sites"].update(rec.get("fault_sites", ()))
        agg["preempt_sites"].update(rec.get("preempt_sites", ()))
        agg["preemptions"] += rec.get("n_preemptions", 0)
        agg["ticks"] += rec.get("ticks", 0)
        agg["pools"] += rec.get("n_pools", 0)
        if rec.get("sample") is not None and c["want_sample"]:
            agg["samples"].append({"run_index": i, "class": cls, "fault_mode": c["fault_mode"], **rec["sample"]})
        if cfg.get("collect_digests"):
            agg["digests"][i] = (rec.get("digest"), rec.get("events"), rec.get("result"))
        if rec["violations"]:
            agg["n_violating_runs"] += 1
            for v in rec["violations"]:
                e = match_known(v, known)
                if e is not None:
                    agg["known_seen"][e["id"]] += 1
                    continue
                sh = site_hash(v["site"])
                agg["site_counts"][sh] += 1
                if per_site_kept[sh] < cfg.get("keep_per_site", 2):
                    per_site_kept[sh] += 1
                    agg["violations"].append(
                        {
                            "run_index": i,
                            "cls": cls,
                            "fault_mode": c["fault_mode"],
                            "scen": list(scen.trace),
                            "sched": list(sched.trace),
                            "site": v["site"],
                            "features": v.get("features", {}),
                            "expected": _short(v.get("expected")),
                            "actual": _short(v.get("actual")),
                        }
                    )
    _arm(0)
    agg["nontrivial_digests"] = np.array(agg["nontrivial_digests"], dtype=np.uint64)
    agg["interleavings"] = np.unique(np.array(agg["interleavings"], dtype=np.uint64))
    agg["wall"] = time.time() - t0
    return agg


def _short(x, lim=400):
    s = repr(x)
    return s if len(s) <= lim else s[:lim] + "..."


def job_replay(prop, cls, cfg, scen_list, sched_list, want_sample=True, scenario=None):
    """Re-execute one run from its recorded scenario (or, failing that, choices)."""
    _worker_init()
    _arm(cfg.get("timeout_s", 300))
    scen = Choices(replay=scen_list)
    sched = Choices(replay=sched_list)
    c = dict(cfg)
    c["want_sample"] = want_sample
    rec = run_single(prop, cls, c, scen, sched, scenario=scenario)
    _arm(0)
    return {
        "scenario_full": rec.get("scenario"),
        "violations": [{"site": v["site"], "features": v.get("features", {}), "expected": _short(v.get("expected")), "actual": _short(v.get("actual"))} for v in rec["violations"]],
        "events": rec.get("events"),
        "result": rec.get("result"),
        "digest": rec.get("digest"),
        "sample": rec.get("sample"),
        "scen": list(scen.trace),
        "sched": list(sched.trace),
    }


def job_shrink(prop, cls, cfg, scen_list, sched_list, target_site, max_evals, budget_s):
    _worker_init()
    _arm(budget_s + 240)
    t_end = time.time() + budget_s
    target = site_hash(target_site)
    known = [e for e in load_known() if e["property"] == prop]

    def test(a, b):
        scen = Choices(replay=a)
        sched = Choices(replay=b)
        c = dict(cfg)
        c["want_sample"] = False
        try:
            rec = run_single(prop, cls, c, scen, sched)
        except Exception:
            return None
        for v in rec["violations"]:
            if site_hash(v["site"]) == target and match_known(v, known) is None:
                return (scen.trace, sched.trace, scen.spans)
        return None

    first = test(scen_list, sched_list)
    if first is None:
        _arm(0)
        return {"reproduced": False}
    a, b, evals = shrink(list(first[0]), list(first[1]), test, max_evals=max_evals, deadline=lambda: time.time() > t_end)
    while a and a[-1] == 0:  # an exhausted replay list yields 0: trailing zeros are redundant
        a.pop()
    while b and b[-1] == 0:
        b.pop()
    out = job_replay(prop, cls, cfg, a, b)
    out["scen"], out["sched"] = a, b  # the minimal lists, not the zero-padded consumed traces
    out["reproduced"] = True
    out["evals"] = evals
    _arm(0)
    return out


def job_sequence(prop, seed, cls, cfg, indices, target_site):
    """Execute the runs `indices` (global run indices of one class) in this order in this one
    process, from their seeds, and report the violations of the LAST one.  Used when a violation
    does not reproduce from its own run alone: the outcome then depends on something an earlier
    call left behind in the process (module-level or thread-local state of the library)."""
    _worker_init()
    _arm(cfg.get("timeout_s", 600))
    rec = None
    for i in indices:
        scen = Choices(seed=derive_seed(seed, prop, "scen", i))
        sched = Choices(seed=derive_seed(seed, prop, "sched", i))
        c = dict(cfg)
        c["fault_mode"] = bool(cfg.get("fault_every")) and (i - cfg.get("class_offset", 0)) % cfg["fault_every"] == cfg["fault_every"] - 1
        c["want_sample"] = i == indices[-1]
        c["run_index"] = i
        rec = run_single(prop, cls, c, scen, sched)
    _arm(0)
    target = site_hash(target_site)
    viol = [{"site": v["site"], "features": v.get("features", {}), "expected": _short(v.get("expected")), "actual": _short(v.get("actual"))} for v in rec["violations"]]
    return {"reproduced": any(site_hash(v["site"]) == target for v in viol), "violations": viol, "sample": rec.get("sample"), "events": rec.get("events"), "result": rec.get("result")}


# ---------------------------------------------------------------------------
# parent side
# ---------------------------------------------------------------------------


class HarnessError(Exception):
    pass


def plan_runs(mod, tier, n_runs):
    """classes, and for each class the list of global run indices it executes.
    Equal shares unless the module defines class_weights(tier)."""
    classes = mod.classes(tier)
    ncls = len(classes)
    w = mod.class_weights(tier) if hasattr(mod, "class_weights") else [1.0] * ncls
    only = os.environ.get("GBSIM_ONLY")  # development aid: restrict to classes whose repr contains this
    if only:
        w = [x if only in repr(classes[c]) else 0.0 for c, x in enumerate(w)]
    tot = float(sum(w))
    counts = [int(n_runs * x / tot) for x in w]
    # hand the remainder to the heaviest classes, at least one run per class with weight > 0
    rest = n_runs - sum(counts)
    order = sorted(range(ncls), key=lambda c: -w[c])
    k = 0
    while rest > 0 and ncls:
        if w[order[k % ncls]] <= 0:
            k += 1
            continue
        counts[order[k % ncls]] += 1
        rest -= 1
        k += 1
    offs = [0]
    for c in counts:
        offs.append(offs[-1] + c)
    per_class = [list(range(offs[c], offs[c + 1])) for c in range(ncls)]
    return classes, per_class, offs


class Pools:
    """N single-process pools; class c is pinned to pool c % N (JIT sharding)."""

    def __init__(self, n, hashseed="0"):
        from . import seams

        self.n = n
        env_backup = dict(os.environ)
        seams.apply_env()
        os.environ["PYTHONHASHSEED"] = str(hashseed)
        ctx = mp.get_context("spawn")
        self.pools = [ProcessPoolExecutor(max_workers=1, mp_context=ctx) for _ in range(n)]
        # spawn the processes now, while the environment is set
        self._warm = [p.submit(_noop) for p in self.pools]
        for f in self._warm:
            f.result(timeout=600)
        os.environ.clear()
        os.environ.update(env_backup)

    def submit(self, shard, fn, *args):
        return self.pools[shard % self.n].submit(fn, *args)

    def close(self):
        procs = []
        for p in self.pools:
            procs.extend(list((getattr(p, "_processes", None) or {}).values()))
        for p in self.pools:
            try:
                p.shutdown(wait=False, cancel_futures=True)
            except Exception:
                pass
        for proc in procs:
            try:
                proc.kill()
            except Exception:
                pass


def _noop():
    _worker_init()
    return os.getpid()


def load_known():
    path = os.path.join(ROOT, "known_findings.json")
    if not os.path.exists(path):
        return []
    with open(path) as f:
        return json.load(f)["findings"]


def match_known(violation: dict, entries):
    """A known-finding predicate is a dict feature -> value | [values] over the
    violation's site key merged with its scenario features; it must name `op`."""
    site = dict(violation.get("features", {}))
    site.update(violation["site"])
    for e in entries:
        if e.get("status") != "known":
            continue
        pred = e["site"]
        ok = True
        for k, v in pred.items():
            sv = site.get(k)
            if isinstance(v, list):
                if sv not in v:
                    ok = False
                    break
            elif sv != v:
                ok = False
                break
        if ok:
            return e
    return None


def _jsonable(x):
    import numpy as np

    if isinstance(x, dict):
        return {str(k): _jsonable(v) for k, v in x.items()}
    if isinstance(x, (list, tuple, set)):
        return [_jsonable(v) for v in x]
    if isinstance(x, (np.integer,)):
        return int(x)
    if isinstance(x, (np.floating,)):
        x = float(x)
    if isinstance(x, float):
        if x != x:
            return "NaN"
        if x in (float("inf"), float("-inf")):
            return str(x)
        return x
    if isinstance(x, (str, int, bool)) or x is None:
        return x
    return repr(x)


def write_json(path, obj):
    os.makedirs(os.path.dirname(path), exist_ok=True)
    tmp = path + ".tmp"
    with open(tmp, "w") as f:
        json.dump(_jsonable(obj), f, indent=1, sort_keys=False)
        f.write("\n")
    os.replace(tmp, path)


def run_check(prop: str, tier: str, seed: int, runs: int | None = None, workers: int = 16, selftest_pairs: int | None = None, wall_cap_s: float | None = None):
    t0 = time.time()
    print(f"VERIF_SEED={seed} property={prop} tier={tier}", flush=True)
    mod = prop_module(prop)
    n_runs = runs if runs is not None else mod.n_runs(tier)
    classes, per_class, offs = plan_runs(mod, tier, n_runs)
    ncls = len(classes)
    batch = getattr(mod, "BATCH", 400)
    job_timeout = getattr(mod, "JOB_TIMEOUT_S", 900)
    cfg = {
        "tier": tier,
        "n_classes": ncls,
        "fault_every": int(os.environ.get("GBSIM_FAULT_EVERY") or getattr(mod, "FAULT_EVERY", 5)),  # env: development aid only
        "samples_per_job": 1,
        "seed": seed,
    }
    if wall_cap_s is None:
        wall_cap_s = 3600 if tier == "quick" else 6 * 3600
    known = [e for e in load_known() if e["property"] == prop]
    violations_new = []  # (site, replay path)
    known_seen = Counter()
    exit_code = 0
    pools = Pools(workers)
    try:
        # ---- 1. known / fixed replay files ----
        known_lines = []
        known_futs = []
        for j, e in enumerate(known):
            if not e.get("replay"):
                continue  # recorded repair without a regression case
            rp = os.path.join(ROOT, e["replay"])
            with open(rp) as f:
                rf = json.load(f)
            # pin by class like the exploration runs, so that JIT work is shared with them
            shard = classes.index(rf["cls"]) if rf["cls"] in classes else j
            known_futs.append((e, rf, pools.submit(shard, job_replay, prop, rf["cls"], rf["cfg"], rf["scen"], rf["sched"], False, rf.get("scenario_full"))))
        for e, rf, fut in known_futs:
            try:
                out = fut.result(timeout=900)
            except (BrokenProcessPool, FutTimeout) as ex:
                raise HarnessError(f"replay of {e['id']} failed: {ex!r}")
            hit = [v for v in out["violations"] if match_known(v, [dict(e, status="known")]) is not None]
            if e["status"] == "known":
                if hit:
                    known_lines.append(f"KNOWN-FINDING: property={prop} {e['id']} {e['what']}")
                else:
                    print(f"NOTE: known finding {e['id']} no longer reproduces from its replay file (informational)")
            else:  # fixed: suppresses nothing; must pass
                if out["violations"]:
                    path = os.path.join(ROOT, "replays", prop, f"regressed-{e['id']}.json")
                    rf2 = dict(rf)
                    rf2["violation"] = out["violations"][0]
                    write_json(path, rf2)
                    violations_new.append((out["violations"][0]["site"], path, f"fixed finding {e['id']} has returned"))
        # ---- 2. exploration ----
        futs = []
        # interleave classes so that all pools are busy from the start
        max_len = max((len(x) for x in per_class), default=0)
        for start in range(0, max_len, batch):
            for c in range(ncls):
                idx = per_class[c][start : start + batch]
                if idx:
                    futs.append((c, pools.submit(c, job_batch, prop, seed, classes[c], dict(cfg, class_offset=offs[c]), idx, job_timeout)))
        import numpy as np

        total = Counter()
        probes, faults, site_counts = Counter(), Counter(), Counter()
        nontrivial, inter = [], []
        states_all, transitions_all = set(), set()
        fault_sites_all = set()
        preempt_sites_all = set()
        samples = []
        raw_violations = []
        walls = []
        for c, fut in futs:
            remaining = wall_cap_s - (time.time() - t0)
            try:
                r = fut.result(timeout=max(1.0, remaining))
            except FutTimeout:
                raise HarnessError(f"wall cap of {wall_cap_s}s exceeded")
            except BrokenProcessPool as ex:
                raise HarnessError(f"worker died (class {classes[c]}): {ex!r}")
            if "error" in r:
                raise HarnessError(r["error"])
            total["n"] += r["n"]
            total["ticks"] += r["ticks"]
            total["pools"] += r["pools"]
            total["violating_runs"] += r["n_violating_runs"]
            probes.update(r["probes"])
            known_seen.update(r["known_seen"])
            states_all.update(r.get("states", ()))
            transitions_all.update(r.get("transitions", ()))
            faults.update(r["faults"])
            fault_sites_all.update(r.get("fault_sites", ()))
            preempt_sites_all.update(r.get("preempt_sites", ()))
            total["preemptions"] += r.get("preemptions", 0)
            site_counts.update(r["site_counts"])
            nontrivial.append(r["nontrivial_digests"])
            inter.append(r["interleavings"])
            walls.append(r["wall"])
            if len(samples) < 3 and r["samples"]:
                # prefer non-fault and fault samples from different classes
                samples.extend(r["samples"][: 3 - len(samples)])
            raw_violations.extend(r["violations"])
        n_nontrivial = int(len(np.unique(np.concatenate(nontrivial)))) if nontrivial else 0
        n_inter = int(len(np.unique(np.concatenate(inter)))) if inter else 0
        explore_wall = time.time() - t0

        # ---- 3. classify violations ----
        by_site = {}
        for v in raw_violations:
            by_site.setdefault(site_hash(v["site"]), []).append(v)
        shrink_jobs = []
        for sh, vs in sorted(by_site.items()):
            v = vs[0]
            rcfg = dict(cfg, fault_mode=v["fault_mode"], run_index=v["run_index"])
            rcfg.pop("class_offset", None)
            shrink_jobs.append((sh, v, rcfg, pools.submit(len(shrink_jobs), job_shrink, prop, v["cls"], rcfg, v["scen"], v["sched"], v["site"], getattr(mod, "SHRINK_EVALS", 300), getattr(mod, "SHRINK_BUDGET_S", 150))))
            if len(shrink_jobs) >= 24:
                break
        unshrunk_sites = sorted(by_site)[len(shrink_jobs) :]
        for sh, v, rcfg, fut in shrink_jobs:
            try:
                out = fut.result(timeout=900)
            except (BrokenProcessPool, FutTimeout) as ex:
                raise HarnessError(f"shrink failed: {ex!r}")
            path = os.path.join(ROOT, "replays", prop, f"{sh}.json")

            def _good(o_):
                # reproduced, and still there after shrinking (a violation fed by what earlier runs
                # left behind in the worker process can come and go while the shrinker runs)
                return bool(o_.get("reproduced")) and any(site_hash(x["site"]) == sh for x in o_.get("violations", ()))

            if not _good(out):
                out = dict(out, reproduced=False)
            if not out.get("reproduced"):
                # other occurrences of the same site may be self-contained
                for v2 in by_site[sh][1:4]:
                    rcfg2 = dict(cfg, fault_mode=v2["fault_mode"], run_index=v2["run_index"])
                    rcfg2.pop("class_offset", None)
                    out2 = pools.submit(0, job_shrink, prop, v2["cls"], rcfg2, v2["scen"], v2["sched"], v2["site"], getattr(mod, "SHRINK_EVALS", 300), getattr(mod, "SHRINK_BUDGET_S", 150)).result(timeout=900)
                    if _good(out2):
                        v, rcfg, out = v2, rcfg2, out2
                        break
            if not out.get("reproduced"):
                # Not reproducible from its own run: either the outcome depends on what earlier runs
                # left behind in the worker process (state of the library that outlives a call), or
                # the harness is not deterministic.  Decide by re-executing, in one fresh process, the
                # runs of the same class that preceded it (shortest reproducing suffix).
                ci = [tuple(c_) if isinstance(c_, list) else c_ for c_ in classes].index(tuple(v["cls"]) if isinstance(v["cls"], list) else v["cls"])
                before = [i_ for i_ in per_class[ci] if i_ < v["run_index"]]
                scfg = dict(cfg, class_offset=offs[ci])
                seq_out, seq = None, None
                for k_ in (1, 2, 4, 8, 16, 32, 64, 128, 256, len(before)):
                    cand = before[len(before) - min(k_, len(before)) :] + [v["run_index"]]
                    fresh = Pools(2)  # processes without any history
                    try:
                        o_ = fresh.submit(0, job_sequence, prop, seed, v["cls"], scfg, cand, v["site"]).result(timeout=1200)
                        o2_ = fresh.submit(1, job_sequence, prop, seed, v["cls"], scfg, cand, v["site"]).result(timeout=1200) if o_.get("reproduced") else None
                    finally:
                        fresh.close()
                    if o_.get("reproduced"):
                        # (confirmed by the same sequence in a second fresh process)
                        if o2_.get("reproduced") and o2_.get("result") == o_.get("result"):
                            seq_out, seq = o_, cand
                        break
                    if k_ >= len(before):
                        break
                if seq_out is None:
                    raise HarnessError(f"violation at run {v['run_index']} did not reproduce from its recorded choices, nor from the runs of its class preceding it: {v['site']}")
                viol = [x for x in seq_out["violations"] if site_hash(x["site"]) == sh][0]
                viol["features"] = dict(viol.get("features", {}), cross_call_state=True)
                write_json(
                    path,
                    {
                        "property": prop,
                        "seed": seed,
                        "run_index": v["run_index"],
                        "cls": v["cls"],
                        "cfg": scfg,
                        "format": 3,
                        "sequence": seq,
                        "note": "the violation does not occur when the last run is executed alone: it needs what the earlier runs of the sequence (all calls of the public API on fresh inputs) left behind in the process. Replay executes the listed runs in order, from their seeds, in one fresh process.",
                        "scenario": seq_out.get("sample"),
                        "violation": viol,
                        "event_log_sha256": seq_out.get("events"),
                        "result_sha256": seq_out.get("result"),
                        "occurrences_in_batch": site_counts[sh],
                    },
                )
                violations_new.append((viol["site"], path, f"(needs state left behind by earlier calls in the process; sequence of {len(seq)} runs) expected={viol['expected']} actual={viol['actual']}"))
                continue
            viol = [x for x in out["violations"] if site_hash(x["site"]) == sh][0]
            write_json(
                path,
                {
                    "property": prop,
                    "seed": seed,
                    "run_index": v["run_index"],
                    "cls": v["cls"],
                    "cfg": rcfg,
                    "scen": out["scen"],
                    "sched": out["sched"],
                    "format": REPLAY_FORMAT,
                    "scenario_full": out.get("scenario_full"),
                    "scenario": out.get("sample"),
                    "violation": viol,
                    "event_log_sha256": out.get("events"),
                    "result_sha256": out.get("result"),
                    "occurrences_in_batch": site_counts[sh],
                    "shrink_evals": out.get("evals"),
                },
            )
            violations_new.append((viol["site"], path, f"expected={viol['expected']} actual={viol['actual']}"))

        # ---- 6. report ----
        for line in known_lines:
            print(line)
        for eid, cnt in sorted(known_seen.items()):
            print(f"NOTE: {cnt} violating checks in this batch matched known finding {eid}")
        for site, path, what in violations_new:
            print(f"VIOLATION property={prop} replay={path}")
            print(f"  site={json.dumps(site, sort_keys=True)}")
            print(f"  {what}")
        for sh in unshrunk_sites:
            print(f"VIOLATION-UNSHRUNK property={prop} site={json.dumps(by_site[sh][0]['site'], sort_keys=True)} (more than 24 new sites in one batch)")
        if violations_new or unshrunk_sites:
            exit_code = 1
        # ---- 4. determinism self-test on a sample of this batch ----
        selftest = None
        n_pairs = selftest_pairs if selftest_pairs is not None else (64 if tier == "quick" else 256)
        if n_pairs:
            selftest = determinism_selftest(prop, tier, seed, (classes, per_class, offs), cfg, n_pairs, pools)
            if selftest["mismatches"]:
                raise HarnessError(f"determinism self-test failed: {selftest['mismatches'][:3]}")

        # ---- 5. interception self-test ----
        min_pools = getattr(mod, "EXPECT_POOLS", True)
        if min_pools and probes.get("pools_ge2", 0) == 0 and total["n"] >= 50:
            raise HarnessError("seam lost: no simulated pool with >=2 tasks was created in the whole batch")

        stuck = [p for p in getattr(mod, "EXPECTED_PROBES", []) if probes.get(p, 0) == 0]
        for p in stuck:
            print(f"WARNING: reach probe '{p}' stuck at zero in this batch")
        wall = time.time() - t0
        from . import seams

        rule = getattr(mod, "RULE", "")
        evidence = {
            "property_id": prop,
            "tier": tier,
            "seed": seed,
            "level": LEVEL,
            "coverage": {
                "evaluations": int(total["n"]),
                "distinct_nontrivial": n_nontrivial,
                "rule": rule,
                "samples": samples[:3],
                "runs_per_hour": int(total["n"] / max(explore_wall, 1e-9) * 3600),
                "seeds": {"VERIF_SEED": seed, "per_run": "sha256(VERIF_SEED/property/stream/run_index); run_index in [0, evaluations)"},
                "simulated_ticks": int(total["ticks"]),
                "simulated_pools": int(total["pools"]),
                "fault_counts_fired": dict(faults),
                "distinct_stmt_fault_points": len(fault_sites_all),
                "stmt_fault_point_measure": "distinct (file:function:line) of groupby_lib at which a statement-level fault (stmt_fail / stmt_interrupt) actually fired",
                "stmt_fault_points_sample": sorted(fault_sites_all)[:: max(1, len(fault_sites_all) // 12)][:12],
                "preemptions_inside_task_bodies": int(total["preemptions"]),
                "distinct_preemption_points": len(preempt_sites_all),
                "preemption_measure": "pre-emptive pool model (one run in four of the fault-free configuration): task bodies run in real threads of which exactly one holds the baton; count of pre-emptions at line events of groupby_lib frames inside task bodies, and distinct (file:function:line) pre-empted at",
                "distinct_interleavings": n_inter,
                "interleaving_measure": "distinct (call-site, n_tasks, depth, body execution order, delivery order, #done at each delivery[, sequence of task slices in the pre-emptive model]) tuples over all simulated pools",
                "states_reached": len(states_all),
                "transitions_reached": len(transitions_all),
                "state_measure": "C13/C19: (key layout, bitmask of filled cached properties) of the reused GroupBy; transitions: (state, operation, state). 0 for checks without an object under history.",
                "probes": dict(sorted(probes.items())),
                "probes_stuck_at_zero": stuck,
                "classes": len(classes),
                "violating_runs": int(total["violating_runs"]),
                "new_violation_sites": len(violations_new) + len(unshrunk_sites),
                "known_findings_seen": dict(known_seen),
                "known_findings_replayed": [l for l in known_lines],
                "fixed_regression_cases_replayed": len(known_futs),
                "fixed_regression_cases_failing": sum(1 for _s, _p, w in violations_new if w.startswith("fixed finding")),
                "determinism_selftest": selftest,
                "components": _components_from_worker(pools),
                "workers": workers,
            },
            "assumptions": getattr(mod, "ASSUMPTIONS", []),
            "wall_s": round(wall, 2),
            "violations": len(violations_new) + len(unshrunk_sites),
        }
        ev_path = os.path.join(ROOT, "evidence", f"{prop}.json")
        if runs is not None:  # development run with an explicit run count: do not touch committed evidence
            ev_path = os.path.join(ROOT, "replays", f"dev-evidence-{prop}.json")
        write_json(ev_path, evidence)
        print(
            f"{prop} {tier}: runs={total['n']} nontrivial_distinct={n_nontrivial} interleavings={n_inter} "
            f"faults_fired={sum(faults.values())} violating_runs={total['violating_runs']} new_sites={len(violations_new)} wall={wall:.1f}s"
        )
        return exit_code
    finally:
        pools.close()


def _components_from_worker(pools):
    try:
        return pools.submit(0, _job_components).result(timeout=120)
    except Exception as e:  # pragma: no cover
        return {"error": repr(e)}


def _job_components():
    _worker_init()
    from . import seams

    return seams.components()


def determinism_selftest(prop, tier, seed, plan, cfg, n_pairs, pools: Pools, other_pools: Pools | None = None):
    """Same seeds executed twice: once on the pinned pool, once in a fresh
    interpreter with a different PYTHONHASHSEED.  Digests must agree."""
    classes, per_class, offs = plan
    ncls = len(classes)
    # restrict to few classes to bound JIT in the second interpreter set
    use_classes = [c for c in range(ncls) if per_class[c]][:4]
    share = -(-n_pairs // max(len(use_classes), 1))
    idx_by_class = {c: per_class[c][:share] for c in use_classes}
    c2 = dict(cfg, collect_digests=True, samples_per_job=0)
    own = other_pools is None
    if own:
        other_pools = Pools(len(use_classes), hashseed="4242")
    try:
        fa = {c: pools.submit(c, job_batch, prop, seed, classes[c], dict(c2, class_offset=offs[c]), idx, 1500) for c, idx in idx_by_class.items()}
        fb = {c: other_pools.submit(k, job_batch, prop, seed, classes[c], dict(c2, class_offset=offs[c]), idx, 1500) for k, (c, idx) in enumerate(idx_by_class.items())}
        mism = []
        n = 0
        for c in idx_by_class:
            try:
                ra, rb = fa[c].result(timeout=3000), fb[c].result(timeout=3000)
            except (BrokenProcessPool, FutTimeout) as ex:
                raise HarnessError(f"selftest worker failed: {ex!r}")
            for r in (ra, rb):
                if "error" in r:
                    raise HarnessError(r["error"])
            for i in idx_by_class[c]:
                n += 1
                if ra["digests"][i] != rb["digests"][i]:
                    mism.append({"run_index": i, "class": classes[c], "a": ra["digests"][i], "b": rb["digests"][i]})
        return {"pairs": n, "mismatches": mism, "second_interpreter_PYTHONHASHSEED": "4242", "compared": ["scenario digest", "event-log digest", "result digest"]}
    finally:
        if own:
            other_pools.close()


def run_replay(path: str):
    with open(path) as f:
        rf = json.load(f)
    prop = rf["property"]
    pools = Pools(1)
    try:
        if rf.get("format") == 3:
            out = pools.submit(0, job_sequence, prop, rf["seed"], rf["cls"], rf["cfg"], rf["sequence"], rf["violation"]["site"]).result(timeout=1800)
        else:
            out = pools.submit(0, job_replay, prop, rf["cls"], rf["cfg"], rf["scen"], rf["sched"], True, rf.get("scenario_full")).result(timeout=1200)
    finally:
        pools.close()
    want = site_hash(rf["violation"]["site"])
    hit = [v for v in out["violations"] if site_hash(v["site"]) == want]
    print(f"replay {path}: property={prop} run_index={rf.get('run_index')} seed={rf.get('seed')}")
    print(json.dumps(_jsonable(out.get("sample")), indent=1)[:4000])
    if hit:
        ok = (rf.get("event_log_sha256") in (None, out["events"])) and (rf.get("result_sha256") in (None, out["result"]))
        print(f"VIOLATION property={prop} replay={path}")
        print(f"  site={json.dumps(hit[0]['site'], sort_keys=True)}")
        print(f"  expected={hit[0]['expected']} actual={hit[0]['actual']}")
        if not ok:
            print(f"REPLAY-MISMATCH: digests differ (events {rf.get('event_log_sha256')} vs {out['events']}, result {rf.get('result_sha256')} vs {out['result']})")
            return 3
        return 1
    if out["violations"]:
        print("REPLAY-MISMATCH: a different violation was produced:", out["violations"][0]["site"])
        return 3
    print("replay: no violation reproduced (property holds on this file)")
    return 0


def run_triage(prop, tier, seed, runs, workers, group_by=None):
    """Development aid: run a batch, keep every violation, print them grouped by
    scenario features (to find root causes behind many symptoms)."""
    mod = prop_module(prop)
    classes, per_class, offs = plan_runs(mod, tier, runs)
    ncls = len(classes)
    cfg = {"tier": tier, "n_classes": ncls, "fault_every": int(os.environ.get("GBSIM_FAULT_EVERY") or getattr(mod, "FAULT_EVERY", 5)), "samples_per_job": 0, "seed": seed, "keep_per_site": 10**9}
    pools = Pools(workers)
    out = []
    try:
        futs = []
        batch = getattr(mod, "BATCH", 400)
        max_len = max(len(x) for x in per_class)
        for start in range(0, max_len, batch):
            for c in range(ncls):
                idx = per_class[c][start : start + batch]
                if idx:
                    futs.append(pools.submit(c, job_batch, prop, seed, classes[c], dict(cfg, class_offset=offs[c]), idx, 3000))
        for f in futs:
            r = f.result()
            if "error" in r:
                raise HarnessError(r["error"])
            out.extend(r["violations"])
    finally:
        pools.close()
    path = os.path.join(ROOT, "replays", f"triage-{prop}.json")
    write_json(path, out)
    keys = group_by or ["check", "outcome", "exc", "key_kind", "key_repr", "null_keys", "mask", "fault"]
    groups = {}
    for v in out:
        d = dict(v.get("features", {}))
        d.update(v["site"])
        k = tuple(str(d.get(x, "-")) for x in keys)
        g = groups.setdefault(k, {"n": 0, "ops": Counter(), "ex": v})
        g["n"] += 1
        g["ops"][d.get("op")] += 1
    print(f"{len(out)} violations; grouped by {keys}")
    for k, g in sorted(groups.items(), key=lambda kv: -kv[1]["n"]):
        print(f"{g['n']:5d} {' | '.join(k)}  ops={dict(g['ops'].most_common(6))} run={g['ex']['run_index']}")
        print(f"        exp={g['ex']['expected'][:150]}  act={g['ex']['actual'][:150]}")
    return 0
