"""C19 -- operations never modify their inputs; results do not alias them.

System under simulation: a client and the library sharing memory.  The client
owns key / value / mask / timestamp buffers in a drawn container (NumPy incl.
strided views, slices of larger arrays and read-only arrays; pandas Series
NumPy- or Arrow-backed; Categorical; polars Series; pyarrow Array / ChunkedArray),
calls operations (the C13 op list plus the stand-alone array functions) and
misbehaves between calls by overwriting everything writable in the results it
received.

Invariants after every step (also when the step raised or had a worker failure
injected): (i) byte-level fingerprints of every client buffer equal those taken
before the history started; (ii) labels and per-row labels of the GroupBy are
unchanged.  After a scribble: (iii) fingerprints still unchanged; (iv) the
identical call repeated on the same object and on a fresh one equals a deep copy
of the first result taken before the scribble.  Aliasing as such is not flagged,
only observable write-through.  The shared-write monitor of the simulated pool
runs throughout: a task that changes one of its argument arrays is a violation.
"""

from __future__ import annotations

import hashlib
import warnings

import numpy as np

from . import c13, compare, executor, gen, ops
from .choices import Choices

PROP = "C19"
FAULT_EVERY = 4  # every 4th run is the fault configuration (pool-level and statement-level faults)
BATCH = 40
SHRINK_EVALS = 500
JOB_TIMEOUT_S = 1800
VD_QUICK = ["float64", "int64", "bool", "datetime64[ns]"]
VD_THOROUGH = VD_QUICK + ["float32", "timedelta64[ns]"]
N_SHARDS = 4

VAL_CONTAINERS = ["numpy", "numpy_strided", "numpy_offset", "pandas", "numpy", "numpy_readonly", "pandas_arrow", "polars", "arrow", "arrow_chunked", "numpy_offset", "polars_nulls", "pandas_arrow_nulls"]
KEY_CONTAINERS = ["numpy", "numpy_strided", "numpy_readonly", "pandas", "arrow_chunked", "polars"]
# raw accessors of the grouping itself: what they hand out must not be a writable handle on its state
ACC_OPS = ["group_ikey", "ikey_count", "count_ikey", "result_index", "key_count", "groups"]
FN_OPS = ["fn_ema", "fn_ema_grouped", "fn_ema_timed", "fn_ema_grouped_timed", "fn_group_sum", "fn_group_min", "fn_group_first", "fn_group_mean", "fn_cumsum", "fn_cummax", "fn_rolling_sum", "fn_rolling_max", "fn_shift"]

RULE = (
    "one run = one value dtype class + a logical dataset + a container for the key(s) and for every value column drawn from NumPy (contiguous, "
    "strided view, slice of a larger array, read-only), pandas Series (NumPy- or Arrow-backed), Categorical, polars Series, pyarrow Array/ChunkedArray "
    "+ strategy knobs + a history of 1-6 steps (thorough: up to 8) drawn from every public operation family and the stand-alone array functions; after "
    "about half of the steps the client overwrites every writable byte of the result (pandas .iloc setter, raw ndarray writes, dict members) and repeats "
    "the call on the same and on a fresh GroupBy; every 5th run injects a worker failure. Non-trivial: at least one zero-copy container (anything but a "
    "private contiguous ndarray), at least one step through a simulated pool with >=2 tasks, and one scribble followed by a repeat call. "
    "Distinct: blake2b of (dataset, containers, strategy, history)."
)
ASSUMPTIONS = [
    "fingerprints cover the owning buffers (the larger base array for views; every buffer of every chunk for Arrow; codes and categories for categoricals)",
    "the client only writes where the result object says it is writable (it does not force the writeable flag of a read-only view)",
    "task bodies are atomic in the task-atomic pool model and pre-empted only at Python line events of groupby_lib frames in the pre-emptive model (one fault-free run in three); compiled kernels and pandas / NumPy calls are never split; in the atomic model a write by a task is detected after the task (shared-write monitor), in the pre-emptive model through the fingerprints after the call",
    "statement-level faults are line-granular (DESIGN 9.4)",
]
EXPECTED_PROBES = ["zero_copy_container", "readonly_input", "scribble", "scribbled_raw_ndarray", "scribbled_pandas_setter", "repeat_after_scribble", "failing_step_checked", "pools_ge2", "stmt_fault_armed", "preemptive_pools", "tasks_interleaved_inside_bodies"]


def classes(tier):
    vds = VD_QUICK if tier == "quick" else VD_THOROUGH
    return [[v, s] for v in vds for s in range(N_SHARDS)]


def n_runs(tier):
    return 3_000 if tier == "quick" else 120_000


# ---------------------------------------------------------------------------
# containers: build the client's objects and remember the owning buffers
# ---------------------------------------------------------------------------


class Owned:
    """An object handed to the library plus the buffers that own its memory."""

    def __init__(self, obj, owners, container):
        self.obj = obj
        self.owners = owners
        self.container = container


def _wrap_numpy(arr, how):
    if how == "numpy":
        a = arr.copy()
        return a, [a]
    if how == "numpy_readonly":
        a = arr.copy()
        a.setflags(write=False)
        return a, [a]
    if how == "numpy_strided":
        base = np.empty(len(arr) * 2 + 1, dtype=arr.dtype)
        base[...] = arr[0] if len(arr) else 0
        view = base[1::2][: len(arr)] if len(arr) else base[:0]
        view[...] = arr
        return view, [base]
    if how == "numpy_offset":
        base = np.empty(len(arr) + 5, dtype=arr.dtype)
        base[...] = arr[0] if len(arr) else 0
        view = base[3 : 3 + len(arr)]
        view[...] = arr
        return view, [base]
    raise AssertionError(how)


_CLIENT_INDEX = [None]  # the client's own (named, non-default) index object for this run, if any


def own_array(arr: np.ndarray, how: str, name=None, lens=None) -> Owned:
    import pandas as pd
    import polars as pl
    import pyarrow as pa

    if how.startswith("numpy"):
        if arr.dtype == object and how in ("numpy_strided", "numpy_offset"):
            how = "numpy"
        v, owners = _wrap_numpy(arr, how)
        return Owned(v, owners, how)
    if how == "pandas":
        base = arr.copy()
        ix = _CLIENT_INDEX[0]
        if ix is not None and len(ix) == len(base):
            sr = pd.Series(base, name=name if name else "vname", index=ix, copy=False)
            return Owned(sr, [base, ix, sr], how)
        return Owned(pd.Series(base, name=name, copy=False), [base], how)
    temporal = arr.dtype.kind in "mM"

    def to_pa(x):
        if temporal:
            atype = pa.timestamp("ns") if x.dtype.kind == "M" else pa.duration("ns")
            return pa.array(x.view("int64")).view(atype)
        return pa.array(x)

    if how == "arrow":
        a = to_pa(arr)
        return Owned(a, [a], how)
    if how == "arrow_chunked":
        lens = lens or [len(arr)]
        bounds = np.cumsum([0] + list(lens))
        chunks = [to_pa(arr[a:b]) for a, b in zip(bounds[:-1], bounds[1:])]
        ca = pa.chunked_array(chunks, type=chunks[0].type)
        return Owned(ca, [ca], how)
    if how in ("polars_nulls", "pandas_arrow_nulls"):
        # missing values as real Arrow nulls (validity bitmap) over a buffer whose null slots
        # hold a finite filler: the buffer is the caller's, null slots included
        if arr.dtype.kind == "f" and np.isnan(arr).any():
            m = np.isnan(arr)
            a = pa.array(np.where(m, arr.dtype.type(0), arr), mask=m)
            if how == "polars_nulls":
                sr = pl.from_arrow(a)
                return Owned(sr.alias(name) if name else sr, [a, sr], how)
            sr = pd.Series(pd.arrays.ArrowExtensionArray(a), name=name)
            return Owned(sr, [a, sr], how)
        how = "polars" if how == "polars_nulls" else "pandas_arrow"
    if how == "pandas_arrow":
        a = to_pa(arr)
        s = pd.Series(pd.arrays.ArrowExtensionArray(a), name=name)
        return Owned(s, [a, s], how)
    if how == "polars":
        a = to_pa(arr)
        s = pl.from_arrow(a)
        if name:
            s = s.alias(name)
        return Owned(s, [a, s], how)
    raise AssertionError(how)


def _meta(o):
    """Caller-visible metadata of pandas objects (name / names): renaming the caller's
    object is a modification of the input too."""
    out = []
    for w in o.owners + [o.obj]:
        if type(w).__module__.startswith("pandas"):
            out.append((type(w).__name__, repr(getattr(w, "name", None)), repr(getattr(w, "names", None))))
    return tuple(out)


def _container_snapshot(cont):
    """Identity of a caller-owned list / dict of columns: same length, keys and entry objects."""
    if isinstance(cont, dict):
        return ("dict", tuple(cont.keys()), tuple(id(v) for v in cont.values()))
    return ("list", len(cont), tuple(id(v) for v in cont))


def fingerprints(owned_list):
    return [(executor.fingerprint(o.owners), _meta(o)) for o in owned_list]


# ---------------------------------------------------------------------------
# scribbling
# ---------------------------------------------------------------------------


def _filler(dtype):
    k = dtype.kind
    if k == "f":
        return 12345.5
    if k in "iu":
        return 77
    if k == "b":
        return True
    if k == "M":
        return np.datetime64("1999-09-09", "ns")
    if k == "m":
        return np.timedelta64(99, "ns")
    return None


def scribble(res, probes):
    """Overwrite everything writable in a returned result."""
    import pandas as pd

    def raw(a):
        if isinstance(a, np.ndarray) and a.flags.writeable and a.size:
            f = _filler(a.dtype)
            if f is not None:
                try:
                    a[...] = f
                    probes.add("scribbled_raw_ndarray")
                except Exception:
                    pass

    with warnings.catch_warnings():
        warnings.simplefilter("ignore")
        if isinstance(res, np.ndarray):
            raw(res)
        elif isinstance(res, dict):
            for v in res.values():
                raw(v) if isinstance(v, np.ndarray) else None
        if isinstance(res, (pd.Series, pd.DataFrame)):
            # the result's index: rename it and write into its values where that is allowed
            try:
                raw(res.index.values)
            except Exception:
                pass
            try:
                if isinstance(res.index, pd.MultiIndex):
                    res.index.names = ["__scribbled__"] * res.index.nlevels
                else:
                    res.index.name = "__scribbled__"
                probes.add("scribbled_index_name")
            except Exception:
                pass
            try:
                if isinstance(res, pd.Series):
                    res.name = "__scribbled__"
            except Exception:
                pass
        if isinstance(res, pd.Series):
            try:
                raw(res.values)
            except Exception:
                pass
            try:
                arr = res.array
                raw(getattr(arr, "_ndarray", None))
            except Exception:
                pass
            f = _filler(res.dtype) if isinstance(res.dtype, np.dtype) else None
            if f is not None and len(res):
                try:
                    res.iloc[:] = f
                    probes.add("scribbled_pandas_setter")
                except Exception:
                    pass
        elif isinstance(res, pd.DataFrame):
            for j in range(res.shape[1]):
                col = res.iloc[:, j]
                try:
                    raw(col.values)
                except Exception:
                    pass
                f = _filler(col.dtype) if isinstance(col.dtype, np.dtype) else None
                if f is not None and len(res):
                    try:
                        res.iloc[:, j] = f
                        probes.add("scribbled_pandas_setter")
                    except Exception:
                        pass
        elif isinstance(res, pd.Index):
            try:
                raw(res.values)
            except Exception:
                pass
            try:
                if isinstance(res, pd.MultiIndex):
                    res.names = ["__scribbled__"] * res.nlevels
                else:
                    res.name = "__scribbled__"
                probes.add("scribbled_index_name")
            except Exception:
                pass


# ---------------------------------------------------------------------------
# scenario
# ---------------------------------------------------------------------------


def gen_fn_op(s: Choices, ds):
    name = FN_OPS[s.draw(len(FN_OPS))]
    op = {"op": name, "cols": [0], "mask": gen.gen_mask(s, ds, ("none", "bool"))}
    if name in ("fn_ema", "fn_ema_grouped"):
        op["alpha"] = [0.5, 1.0, 0.25, 0.5, 1.5][s.draw(5)]  # (1.5 is rejected, late)
    if name in ("fn_ema_timed", "fn_ema_grouped_timed"):
        op["halflife"] = ["2s", "500ms"][s.draw(2)]
        op["steps"] = [1 + s.draw(3) for _ in range(ds["n"])]
        op["epoch"] = s.weighted([(2, "2024"), (1, "zero"), (1, "pre1970")])
        if name == "fn_ema_timed":
            op["mask"] = {"kind": "none"}
    if name.startswith("fn_rolling") or name == "fn_shift":
        op["window"] = 1 + s.draw(3)
    if name.startswith("fn_group"):
        op["n_threads"] = 1 + s.draw(3)
    return op


def call_fn_op(op, codes, ngroups, values, mask, times=None):
    from groupby_lib import emas
    from groupby_lib.groupby import numba as nbf

    name = op["op"]
    with warnings.catch_warnings():
        warnings.simplefilter("ignore")
        with np.errstate(all="ignore"):
            if name == "fn_ema":
                return emas.ema(values, alpha=op["alpha"])
            if name == "fn_ema_grouped":
                return emas.ema_grouped(codes, ngroups, values, alpha=op["alpha"], mask=mask)
            if name == "fn_ema_timed":
                return emas.ema(values, halflife=op["halflife"], times=times)
            if name == "fn_ema_grouped_timed":
                return emas.ema_grouped(codes, ngroups, values, halflife=op["halflife"], times=times, mask=mask)
            if name.startswith("fn_group_"):
                f = getattr(nbf, name[3:])
                return f(codes, values, ngroups, mask=mask, n_threads=op["n_threads"])
            if name in ("fn_cumsum", "fn_cummax"):
                return getattr(nbf, name[3:])(codes, values, ngroups, mask=mask)
            if name in ("fn_rolling_sum", "fn_rolling_max"):
                return getattr(nbf, name[3:])(codes, values, ngroups, op["window"], mask=mask)
            if name == "fn_shift":
                return nbf.rolling_shift(codes, values, ngroups, op["window"], mask=mask)
    raise AssertionError(name)


def _outcome(fn):
    try:
        r = fn()
        return ("ok", compare.canon(r), r)
    except NotImplementedError as e:
        return ("refused", "NotImplementedError", compare.msg(e, 120))
    except BaseException as e:  # noqa: BLE001
        if isinstance(e, (KeyboardInterrupt, SystemExit, executor.ProtocolError)) and not isinstance(e, executor.InjectedInterrupt):
            raise
        return ("raise", type(e).__name__, compare.msg(e, 160))


def run_one(scen: Choices, sched: Choices, cls, cfg):
    return execute(gen_scenario(scen, cls, cfg), sched, cls, cfg)


def gen_scenario(scen: Choices, cls, cfg):
    """The complete, JSON-able scenario of one run (everything but the schedule)."""
    vdtype, _shard = cls
    tier = cfg.get("tier", "quick")
    ds = gen.gen_dataset(scen, vdtype, tier, max_n=60, allow_multi=True)
    ds["named"] = False
    ds["index"] = "range"
    sort = not scen.chance(1, 6)
    st = gen.gen_strategy(scen, ds)
    if st["threshold"] is None and scen.chance(1, 2):
        st["threshold"] = [1, 2, 4, 8][scen.draw(4)]
    n = ds["n"]
    # ---- containers ----
    key_cont = []
    for kk in ds["key_kinds"]:
        if kk == "categorical":
            key_cont.append("categorical")
        elif kk in ("str_series",):
            key_cont.append("pandas_str")
        elif kk in ("str_object", "str_u", "bool", "datetime_nat"):
            key_cont.append(["numpy", "numpy_readonly", "pandas"][scen.draw(3)])
        else:
            c = KEY_CONTAINERS[scen.draw(len(KEY_CONTAINERS))]
            if len(ds["key_kinds"]) > 1 and c == "arrow_chunked":
                c = "numpy"
            key_cont.append(c)
    if len(ds["key_kinds"]) == 1 and ds["key_kinds"][0] in ("int", "int_neg") and scen.chance(1, 8):
        # a named RangeIndex handed over in a mapping under another name (every row its own group)
        key_cont[0] = "range_index_in_mapping"
    val_cont = []
    for col in ds["cols"]:
        c = VAL_CONTAINERS[scen.draw(len(VAL_CONTAINERS))]
        if col["dtype"] == "bool" and c in ("arrow", "arrow_chunked", "pandas_arrow", "polars", "polars_nulls", "pandas_arrow_nulls"):
            c = "numpy_strided"
        val_cont.append(c)
    cut_lens = gen._cuts(scen, n)
    mask_readonly = bool(scen.draw(2))
    client_index = scen.chance(1, 3)  # pandas inputs share one named, non-default index object
    values_form = scen.weighted([(1, "dict"), (1, "list")])
    max_steps = 6 if tier == "quick" else 8
    nsteps = 1 + scen.draw(max_steps)
    steps = []
    while len(steps) < max_steps:
        b_ = scen.begin()
        if not scen.forced(1 if len(steps) < nsteps else 0):  # "one more step?"
            break
        kind = scen.weighted([(10, "op"), (3, "fn"), (2, "failing_call"), (2, "acc")])
        if kind == "acc":
            name = ACC_OPS[scen.draw(len(ACC_OPS))]
            step = {"kind": "acc", "op": {"op": name, "cols": [0], "mask": gen.gen_mask(scen, ds, ("none", "bool")) if name == "count_ikey" else {"kind": "none"}}}
        elif kind == "op":
            fam = scen.weighted([(4, "basic"), (2, "composite"), (3, "rowwise"), (3, "select")])
            step = {"kind": "op", "op": ops.gen_op(scen, fam, ds, mask_kinds=("none", "bool", "slice", "positions"))}
            # (under the pre-emptive pool model far more often: the two tasks' bodies can overlap there)
            if len(step["op"].get("cols", ())) == 1 and step["op"]["op"] in ops.BASIC + ops.ROWWISE and scen.chance(*((1, 2) if st.get("preempt") else (1, 6))):
                step["alias_cols"] = True
        elif kind == "fn":
            step = {"kind": "fn", "op": gen_fn_op(scen, ds)}
        else:
            step = _failing(scen, ds)
        step["scribble"] = scen.chance(3, 4)
        steps.append(step)
        scen.end(b_)
    if not steps:
        steps = [{"kind": "op", "op": ops.gen_op(Choices(replay=[]), "basic", ds), "scribble": False}]
    nsteps = len(steps)
    fault = None
    fault_step = None
    if cfg.get("fault_mode"):
        fault = gen.gen_fault(scen, stmt=True)
        if fault["kind"] in gen.STMT_KINDS:
            # a crash / interrupt between two statements: any call of the public API (what is
            # checked right after it -- buffers, labels and codes -- needs no later step)
            cand = [i for i, s_ in enumerate(steps) if s_["kind"] in ("op", "failing_call")] or list(range(nsteps))
        else:
            # a fault with nothing in flight tests nothing: prefer steps that go through the pool
            cand = [i for i, s_ in enumerate(steps) if s_.get("op", {}).get("op") in ops.BASIC + ops.COMPOSITE] or list(range(nsteps))
        fault_step = cand[scen.draw(len(cand))]
        fault["k"] = min(fault["k"], 3)

    return {
        "ds": ds, "sort": sort, "st": st, "key_cont": key_cont, "val_cont": val_cont, "cut_lens": cut_lens,
        "mask_readonly": mask_readonly, "steps": steps, "fault": fault, "fault_step": fault_step, "client_index": client_index, "values_form": values_form,
    }


def execute(sc, sched: Choices, cls, cfg):
    import pandas as pd
    from groupby_lib.groupby.core import GroupBy

    vdtype, _shard = cls
    ds, sort, st, key_cont, val_cont, cut_lens = sc["ds"], sc["sort"], sc["st"], sc["key_cont"], sc["val_cont"], sc["cut_lens"]
    mask_readonly, steps, fault, fault_step = sc["mask_readonly"], sc["steps"], sc["fault"], sc["fault_step"]
    n = ds["n"]
    rec = {"violations": [], "probes": [], "faults": [], "interleavings": [], "ticks": 0, "nontrivial": False, "n_pools": 0, "scenario": sc}
    probes = set()
    key_kind = ds["key_kinds"][0] if len(ds["key_kinds"]) == 1 else "multi"

    # ---- materialise the client's buffers once ----
    _CLIENT_INDEX[0] = pd.Index(np.arange(n) * 2 + 100, name="orig") if sc.get("client_index") else None
    owned_keys = []
    for k, kk in enumerate(ds["key_kinds"]):
        base = gen.build_key(dict(ds, named=False, index="range"), k, None)
        if key_cont[k] == "range_index_in_mapping":
            ri = pd.RangeIndex(n, name="orig")
            owned_keys.append(Owned(ri, [ri], "range_index_in_mapping"))
        elif key_cont[k] == "categorical":
            owned_keys.append(Owned(base, [base], "categorical"))
        elif key_cont[k] == "pandas_str":
            owned_keys.append(Owned(base, [base], "pandas_str"))
        else:
            arr = np.asarray(base)
            how = key_cont[k]
            if arr.dtype == object or arr.dtype.kind in "U":
                how = how if how in ("numpy", "numpy_readonly", "pandas") else "numpy"
            if arr.dtype.kind == "b" and how in ("arrow_chunked", "polars"):
                how = "numpy"
            if arr.dtype.kind == "M" and how in ("arrow_chunked", "polars") and any(c < 0 for c in ds["key_codes"][k]):
                how = "numpy"
            owned_keys.append(own_array(arr, how, lens=[x for x in cut_lens if x > 0] or [n]))
    # int64.min is kept out of int64 columns when a summation-order operation is in the
    # history (container/route-dependent null convention, see ops.sanitize)
    if any(s_["op"]["op"] in ops.SUM_LIKE for s_ in steps):
        ds = dict(ds, cols=[dict(c, idx=[0 if i == 1 else i for i in c["idx"]]) if c["dtype"] == "int64" else c for c in ds["cols"]])
    if any(s_["op"]["op"] in ops.DIVIDING for s_ in steps):
        ds = dict(ds, cols=[dict(c, arb=False) for c in ds["cols"]])
    dso = ds
    owned_vals = []
    for c, col in enumerate(ds["cols"]):
        owned_vals.append(own_array(gen.col_array(col), val_cont[c], name=None, lens=cut_lens))
    all_owned = owned_keys + owned_vals
    if any(o.container not in ("numpy",) for o in all_owned):
        probes.add("zero_copy_container")
    if any(o.container == "numpy_readonly" for o in all_owned):
        probes.add("readonly_input")
    fp0 = fingerprints(all_owned)

    gen.apply_strategy(st)
    events, results = [], []
    max_tasks = 0
    scribbled_and_repeated = False

    def new_ctx(with_fault=None):
        return executor.SimContext(sched=sched, workers=st["workers"], cpu_count=st["cpu"], fault=with_fault, monitor=True, preempt=st.get("preempt", False))

    def account(ctx, site_op):
        nonlocal max_tasks
        rec["ticks"] += ctx.ticks
        rec["n_pools"] += ctx.n_pools
        rec["interleavings"].extend(ctx.interleavings())
        events.append(ctx.event_digest())
        rec["n_preemptions"] = rec.get("n_preemptions", 0) + ctx.stats.get("preemptions", 0)
        rec["preempt_sites"] = sorted(set(rec.get("preempt_sites", ())) | ctx.preempt_sites)
        max_tasks = max(max_tasks, ctx.max_tasks)
        for k_, v_ in ctx.stats.items():
            if v_:
                probes.add(k_)
        if ctx.hazards:
            rec["violations"].append(
                {
                    "site": {"property": PROP, "check": "task_wrote_argument", "op": site_op, "outcome": "input_mutated"},
                    "features": {"key_kind": key_kind, "vdtype": vdtype},
                    "expected": "tasks do not write into their argument arrays",
                    "actual": compare.short(ctx.hazards[:3]),
                }
            )

    def keys_obj():
        ks = [o.obj for o in owned_keys]
        if owned_keys[0].container == "range_index_in_mapping":
            return {"k": ks[0]}
        return ks[0] if len(ks) == 1 else ks

    containers = {}  # the client's own list / dict of value columns, reused across calls
    facades = []  # the client's pandas-style facade objects around `gb`, kept and reused

    def values_obj(cols, alias=False):
        if len(cols) == 1 and alias:
            # the same buffer under two column names: two worker tasks of one call then work on
            # one caller-owned buffer (under the pre-emptive pool model: at the same time)
            key = ("alias", cols[0])
            if key not in containers:
                containers[key] = {"a": owned_vals[cols[0]].obj, "b": owned_vals[cols[0]].obj}
                containers[("snap",) + key] = _container_snapshot(containers[key])
            return containers[key]
        if len(cols) == 1:
            return owned_vals[cols[0]].obj
        key = tuple(cols)
        if key not in containers:
            if sc.get("values_form") == "list":
                containers[key] = [owned_vals[c].obj for c in cols]
            else:
                containers[key] = {ds["cols"][c]["name"]: owned_vals[c].obj for c in cols}
            containers[("snap",) + key] = _container_snapshot(containers[key])
        return containers[key]

    def check_containers(opname, extra):
        for key, cont in list(containers.items()):
            if key and key[0] == "snap":
                continue
            if _container_snapshot(cont) != containers[("snap",) + key]:
                rec["violations"].append(
                    {
                        "site": {"property": PROP, "check": "container_unchanged", "op": opname, "outcome": "input_mutated"},
                        "features": dict(feats_base, **extra),
                        "expected": "the caller's list / dict of value columns holds the same objects as before",
                        "actual": f"{type(cont).__name__} changed: {_container_snapshot(cont)[:2]}",
                    }
                )
                containers[("snap",) + key] = _container_snapshot(cont)

    def construct():
        return GroupBy(keys_obj(), sort=sort, factorize_large_inputs_in_chunks=st["chunk_flag"])

    ctx = new_ctx()
    with executor.use_context(ctx):
        try:
            gb = construct()
        except Exception as e:  # noqa: BLE001
            gb = None
            ctor_err = e
    account(ctx, "constructor")
    feats_base = {"key_kind": key_kind, "vdtype": vdtype, "key_container": key_cont[0], "val_container": val_cont[0]}

    def check_inputs(check, opname, extra=None):
        fp = fingerprints(all_owned)
        if fp != fp0:
            # report once: later steps are judged against the buffers as they are now
            changed_now = list(fp)
            which = [i for i, (a, b) in enumerate(zip(fp0, fp)) if a != b]
            names = [("key%d" % i if i < len(owned_keys) else "col%d" % (i - len(owned_keys))) + ":" + all_owned[i].container for i in which]
            rec["violations"].append(
                {
                    "site": {"property": PROP, "check": check, "op": opname, "outcome": "input_mutated" if check == "inputs_unchanged" else "write_through"},
                    "features": dict(feats_base, **(extra or {})),
                    "expected": "client buffers unchanged",
                    "actual": f"changed: {names}",
                }
            )
            fp0[:] = changed_now
            return False
        return True

    if gb is None:
        check_inputs("inputs_unchanged", "constructor")
        rec["probes"] = sorted(probes | {"constructor_raises"})
        rec["digest"] = gen.digest((cls[0], sc))
        rec["events"] = rec["result"] = rec["digest"]
        if cfg.get("want_sample"):
            rec["sample"] = {"note": f"constructor raises {type(ctor_err).__name__}: {ctor_err}", "key_containers": key_cont}
        return rec
    check_inputs("inputs_unchanged", "constructor")
    try:
        inv0 = c13._row_labels(gb)
    except Exception:
        inv0 = None
        probes.add("invariant_skipped")

    # codes for the stand-alone functions: a client-owned copy, also fingerprinted
    fn_codes = np.array([c if c >= 0 else -1 for c in ds["key_codes"][0]], dtype=np.int64)
    fn_ngroups = ds["g"][0]
    owned_codes = own_array(fn_codes, ["numpy", "numpy_strided", "numpy_readonly"][len(steps) % 3])
    fp_codes0 = fingerprints([owned_codes])

    fault_where = None
    for si, step in enumerate(steps):
        kind = step["kind"]
        op = step["op"]
        opname = op["op"] + ("_transform" if op.get("transform") else "")
        mask_desc = ops.op_mask(op)
        mask = gen.build_mask(ds, mask_desc)
        if op.get("via") == "api":
            probes.add("via_facade")
        owned_mask = None
        if isinstance(mask, np.ndarray):
            owned_mask = own_array(mask, "numpy_readonly" if mask_readonly else "numpy")
            mask_obj = owned_mask.obj
        elif isinstance(mask, pd.Series):
            base = np.asarray(mask).copy()
            owned_mask = Owned(pd.Series(base, index=_CLIENT_INDEX[0], copy=False), [base], "pandas")
            mask_obj = owned_mask.obj
        else:
            mask_obj = mask
        fp_mask0 = fingerprints([owned_mask]) if owned_mask is not None else None
        owned_times = None
        if op["op"] in ("ema_timed", "fn_ema_timed", "fn_ema_grouped_timed"):
            # the timestamps are a caller-owned buffer too (int64 views of them are taken inside)
            owned_times = own_array(ops.build_times(ds, op), ["numpy", "numpy_strided", "pandas", "numpy_offset"][si % 4])
        fp_times0 = fingerprints([owned_times]) if owned_times is not None else None
        owned_subset = None
        if op["op"] == "subset_ratio":
            # the subset mask is a caller-owned buffer like the (global) mask
            sub = np.array(op["subset"], dtype=bool)
            if si % 3 == 2:
                b_ = sub.copy()
                owned_subset = Owned(pd.Series(b_, index=_CLIENT_INDEX[0], copy=False), [b_], "pandas")
            else:
                owned_subset = own_array(sub, ["numpy", "numpy_strided"][si % 3])
        fp_subset0 = fingerprints([owned_subset]) if owned_subset is not None else None

        def do_call(target):
            if kind == "acc":
                if op["op"] == "count_ikey":
                    return target.count_ikey(mask_obj)
                return getattr(target, op["op"])
            if kind == "fn":
                return call_fn_op(op, owned_codes.obj, fn_ngroups, owned_vals[0].obj, mask_obj, times=None if owned_times is None else owned_times.obj)
            values = values_obj(op["cols"], alias=bool(step.get("alias_cols")) and op.get("via") != "api")
            m = mask_obj
            if kind == "failing_call":
                fk = step["fail"]
                if fk == "short_values":
                    values = gen.col_array(ds["cols"][op["cols"][0]])[: max(n - 1, 0)]
                elif fk == "long_values":
                    a = gen.col_array(ds["cols"][op["cols"][0]])
                    values = np.concatenate([a, a[:1]])
                elif fk == "bad_mask_len":
                    m = np.ones(n + 1, dtype=bool)
            return ops.call_op(target, op, values, m, dso, times=None if owned_times is None else owned_times.obj, wrappers=facades if target is gb else None, raw_keys=keys_obj(), subset_mask=None if owned_subset is None else owned_subset.obj)

        this_fault = fault if (fault is not None and fault_step == si) else None
        if this_fault is not None and this_fault["kind"] in gen.STMT_KINDS:
            # traced dry run of the same call on a fresh grouping: scales the fault position
            dry = executor.LineTracer(None, mode=this_fault.get("mode", 0))
            ctxd = new_ctx()
            with executor.use_context(ctxd):
                _outcome(lambda: (lambda t_: c13._traced(dry, lambda: do_call(t_)))(construct() if kind != "fn" else None))
            account(ctxd, opname)
            this_fault = gen.arm_stmt_fault(this_fault, dry.count)
            probes.add("stmt_fault_armed")
        ctxr = new_ctx(this_fault)
        with executor.use_context(ctxr):
            r1 = _outcome(lambda: do_call(gb))
        account(ctxr, opname)
        if ctxr.fault_fired:
            rec["faults"].append(ctxr.fault_fired)
            if ctxr.fault_where:
                fault_where = ctxr.fault_where
                rec.setdefault("fault_sites", []).append(fault_where)
        if r1[0] == "raise":
            probes.add("failing_step_checked")
        extra = {"step_kind": kind, "outcome_of_step": r1[0], "fault": ctxr.fault_fired or "none", "mask": mask_desc["kind"]}
        if fault_where:
            extra["fault_where"] = fault_where
        ok_inputs = check_inputs("inputs_unchanged", opname, extra)
        check_containers(opname, extra)
        if fingerprints([owned_codes]) != fp_codes0:
            rec["violations"].append({"site": {"property": PROP, "check": "inputs_unchanged", "op": opname, "outcome": "input_mutated"}, "features": dict(feats_base, **extra), "expected": "codes buffer unchanged", "actual": "codes changed"})
        if owned_mask is not None and fingerprints([owned_mask]) != fp_mask0:
            rec["violations"].append({"site": {"property": PROP, "check": "inputs_unchanged", "op": opname, "outcome": "input_mutated"}, "features": dict(feats_base, **extra), "expected": "mask buffer unchanged", "actual": "mask changed"})
        if owned_times is not None and fingerprints([owned_times]) != fp_times0:
            rec["violations"].append({"site": {"property": PROP, "check": "inputs_unchanged", "op": opname, "outcome": "input_mutated"}, "features": dict(feats_base, **extra), "expected": "timestamps buffer unchanged", "actual": "timestamps changed"})
            fp_times0 = fingerprints([owned_times])
        if owned_subset is not None and fingerprints([owned_subset]) != fp_subset0:
            rec["violations"].append({"site": {"property": PROP, "check": "inputs_unchanged", "op": opname, "outcome": "input_mutated"}, "features": dict(feats_base, **extra), "expected": "subset mask buffer unchanged", "actual": "subset mask changed"})
            fp_subset0 = fingerprints([owned_subset])
        if inv0 is not None:
            try:
                inv = c13._row_labels(gb)
            except Exception:
                inv = None
            if inv is not None and (inv[1] != inv0[1] or inv[0] != inv0[0]):
                rec["violations"].append({"site": {"property": PROP, "check": "grouping_unchanged", "op": opname, "outcome": "label_diff"}, "features": dict(feats_base, **extra), "expected": "labels and per-row labels of the grouping unchanged", "actual": "changed"})
        results.append((r1[0], r1[1] if r1[0] != "ok" else hashlib.blake2b(repr(r1[1]).encode(), digest_size=8).hexdigest()))

        if step["scribble"] and r1[0] == "ok":
            probes.add("scribble")
            before = r1[1]  # canonical deep copy taken before the scribble
            scribble(r1[2], probes)
            check_inputs("no_write_through", opname, extra)
            if owned_mask is not None and fingerprints([owned_mask]) != fp_mask0:
                rec["violations"].append({"site": {"property": PROP, "check": "no_write_through", "op": opname, "outcome": "write_through"}, "features": dict(feats_base, **extra), "expected": "mask buffer unchanged", "actual": "mask changed by editing the result"})
            if fingerprints([owned_codes]) != fp_codes0:
                rec["violations"].append({"site": {"property": PROP, "check": "no_write_through", "op": opname, "outcome": "write_through"}, "features": dict(feats_base, **extra), "expected": "codes buffer unchanged", "actual": "codes changed by editing the result"})
            if owned_times is not None and fingerprints([owned_times]) != fp_times0:
                rec["violations"].append({"site": {"property": PROP, "check": "no_write_through", "op": opname, "outcome": "write_through"}, "features": dict(feats_base, **extra), "expected": "timestamps buffer unchanged", "actual": "timestamps changed by editing the result"})
            tol = ops.tolerance(op, ds, gen.mask_rows(ds, mask_desc)) if kind != "fn" else 0.0
            unordered = op["op"] in ops.UNORDERED
            ctx2 = new_ctx()
            with executor.use_context(ctx2):
                r2 = _outcome(lambda: do_call(gb))
            account(ctx2, opname)
            ctx3 = new_ctx()
            with executor.use_context(ctx3):
                r3 = _outcome(lambda: do_call(construct() if kind != "fn" else None))
            account(ctx3, opname)
            scribbled_and_repeated = True
            probes.add("repeat_after_scribble")
            for label, rr in (("repeat_same_object", r2), ("repeat_fresh_object", r3)):
                if label == "repeat_fresh_object" and kind == "acc" and op["op"] == "group_ikey":
                    continue  # the codes are representation-level (chunk-local before unification)
                if rr[0] != "ok":
                    d = f"{rr[1]}: {rr[2]}"
                    outc = "raises_vs_returns"
                else:
                    d = compare.diff(before, rr[1], tol=tol, unordered=unordered)
                    outc = "value_diff"
                if d is not None:
                    rec["violations"].append(
                        {
                            "site": {"property": PROP, "check": label, "op": opname, "outcome": outc},
                            "features": dict(feats_base, **extra),
                            "expected": compare.short(before),
                            "actual": d,
                        }
                    )
            check_inputs("inputs_unchanged", opname, extra)

    rec["probes"] = sorted(probes)
    zero_copy = "zero_copy_container" in probes
    rec["nontrivial"] = bool(zero_copy and max_tasks >= 2 and scribbled_and_repeated)
    rec["digest"] = gen.digest((cls[0], sc))
    rec["events"] = hashlib.blake2b(repr(events).encode(), digest_size=8).hexdigest()
    rec["result"] = hashlib.blake2b(repr(results).encode(), digest_size=8).hexdigest()
    if cfg.get("want_sample"):
        rec["sample"] = {
            "dataset": {k: ds[k] for k in ("key_kinds", "g", "n", "placement")},
            "key_containers": key_cont,
            "value_containers": val_cont,
            "chunk_lens": cut_lens,
            "strategy": st,
            "history": [{"kind": s_["kind"], "op": s_["op"]["op"], "transform": s_["op"].get("transform"), "mask": ops.op_mask(s_["op"])["kind"], "scribble": s_["scribble"], **({"fail": s_["fail"]} if "fail" in s_ else {})} for s_ in steps],
            "fault": fault,
            "outcomes": results,
        }
    return rec


def _failing(s: Choices, ds=None):
    fk = s.weighted([(2, "short_values"), (2, "long_values"), (2, "bad_mask_len"), (2, "user_func_raises"), (3, "bad_option")])
    if fk == "user_func_raises":
        op = {"op": "apply", "cols": [0], "transform": False, "mask": {"kind": "none"}, "func": "raises"}
    elif fk == "bad_option":
        # an option value the library rejects late, after it has prepared its inputs (anything it
        # changed "for the duration of the call" must have been put back by then; seeded change C19-j)
        mask = gen.gen_mask(s, ds, ("bool", "none", "bool")) if ds is not None else {"kind": "none"}
        which = s.weighted([(3, "alpha"), (1, "q"), (1, "times_without_halflife")])
        if which == "alpha":
            op = {"op": "ema", "cols": [0], "mask": mask, "ibg": False, "alpha": [1.5, 0.0, -0.5][s.draw(3)]}
        elif which == "q":
            op = {"op": "quantile", "cols": [0], "transform": False, "mask": mask, "q": [[0.25, 1.5], [1.5]][s.draw(2)]}
        else:
            op = {"op": "ema_timed", "cols": [0], "mask": mask, "ibg": False, "halflife": None, "steps": [1 + s.draw(3) for _ in range(ds["n"] if ds is not None else 0)], "epoch": "2024"}
    else:
        opn = s.weighted([(2, "sum"), (1, "min"), (1, "cumsum"), (1, "count")])
        op = {"op": opn, "cols": [0], "transform": False, "observed_only": True, "mask": {"kind": "none"}, "skip_na": True}
    return {"kind": "failing_call", "fail": fk, "op": op}
