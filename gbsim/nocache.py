"""Import this first in any ad-hoc script that touches groupby_lib: it disables
numba's on-disk cache so that nothing is read from or written to
/repo/**/__pycache__ (concurrent writers corrupt the index; DESIGN.md 3.1)."""
import sys

sys.dont_write_bytecode = True
import numba.core.dispatcher as _d

_d.Dispatcher.enable_caching = lambda self: None
