"""Proving the simulator before believing it.

selfcheck (MANIFEST.setup_cmd): imports, seam interception on the current tree,
a small same-seed-twice determinism test in fresh interpreters.

selftest: N seeds x 2 executions each -- pinned pools under PYTHONHASHSEED=0 with
16 workers versus a second set of fresh interpreters under another PYTHONHASHSEED
and another worker count; scenario, event-log and result digests must be identical.
"""

from __future__ import annotations

import importlib
import os
import sys
import time

from . import runner


def _available(props):
    out = []
    for p in props:
        try:
            importlib.import_module(f"gbsim.{runner.PROP_MODULES[p]}")
            out.append(p)
        except ModuleNotFoundError:
            pass
    return out


def _job_interception():
    runner._worker_init()
    import numpy as np

    from . import executor, seams
    from .choices import Choices
    from groupby_lib.groupby import numba as nbf
    from groupby_lib import nanops

    ctx = executor.SimContext(sched=Choices(seed=1), cpu_count=4)
    with executor.use_context(ctx):
        k = np.array([0, 0, 1, 1, 2, 2])
        v = np.arange(6.0)
        r = nbf.group_sum(k, v, 3, n_threads=3)
        s = nanops.nansum(np.arange(10.0), n_threads=2)
    # a pool created outside groupby_lib must be the real one
    import concurrent.futures as cf

    with cf.ThreadPoolExecutor(2) as ex:
        real = type(ex).__name__
        got = list(ex.map(lambda x: x + 1, [1, 2]))
    import numba

    # the pool model itself: FIFO under the all-zero schedule, reordering under a drawn one,
    # faults fire and the pool still drains (as `with ThreadPoolExecutor` does)
    from groupby_lib.util import parallel_map

    def run_pm(sched, fault=None, n=5):
        seen = []
        c = executor.SimContext(sched=sched, cpu_count=4, fault=fault)
        with executor.use_context(c):
            try:
                out = parallel_map(lambda i: (seen.append(i), i * i)[1], [(i,) for i in range(n)])
            except Exception as e:  # noqa: BLE001
                out = type(e).__name__
            except executor.InjectedInterrupt as e:
                out = type(e).__name__
        return out, seen, c

    fifo_out, fifo_seen, c0 = run_pm(Choices(replay=[]))
    reordered = 0
    for sd in range(20):
        o, seen, c1 = run_pm(Choices(seed=sd))
        assert o == [0, 1, 4, 9, 16], o
        reordered += seen != sorted(seen) or c1.pools[0][4] != tuple(sorted(c1.pools[0][4]))
    f_out, f_seen, cf = run_pm(Choices(replay=[]), fault={"kind": "task_fail_before", "k": 1})
    s_out, s_seen, cs = run_pm(Choices(replay=[]), fault={"kind": "spawn_fail", "k": 2})
    i_out, i_seen, ci = run_pm(Choices(replay=[]), fault={"kind": "consumer_interrupt", "k": 1})
    model = {
        "fifo_result": fifo_out,
        "fifo_exec_order": fifo_seen,
        "fifo_delivery": list(c0.pools[0][4]),
        "reordered_schedules_of_20": int(reordered),
        "task_fault": [f_out, sorted(f_seen), cf.fault_fired],
        "spawn_fault": [s_out, sorted(s_seen), cs.fault_fired],
        # Ctrl-C while waiting: a BaseException reaches the caller, the `with` block drains every task
        "interrupt": [i_out, sorted(i_seen), ci.fault_fired],
    }

    # statement-level fault points: the tracer sees the library's lines (and only those), counts
    # the same number cold (first call: JIT compilation runs library code, untraced) and warm,
    # and an armed tracer raises where it was told to, leaving tracing switched off afterwards
    import sys

    from groupby_lib.groupby.core import GroupBy

    def traced_sum(mode, fault=None):
        c = executor.SimContext(sched=Choices(replay=[]), cpu_count=4, fault=fault)
        tr = None if fault else executor.LineTracer(None, mode=mode)
        kk = np.array([3, 1, 3, 2, 1, 1], dtype=np.int32)  # a signature nothing above has compiled
        with executor.use_context(c):
            try:
                if tr is None:
                    out = GroupBy(kk).cumsum(np.arange(6, dtype=np.float32)).tolist()
                else:
                    with tr:
                        out = GroupBy(kk).cumsum(np.arange(6, dtype=np.float32)).tolist()
            except BaseException as e:  # noqa: BLE001
                out = type(e).__name__
        return out, (tr.count if tr else None), c

    cold = traced_sum(0)
    warm = traced_sum(0)
    mut = traced_sum(1)
    at = warm[1] // 2
    f1 = traced_sum(0, {"kind": "stmt_fail", "k": 0, "at": at, "mode": 0})
    f2 = traced_sum(0, {"kind": "stmt_interrupt", "k": 0, "at": at, "mode": 0})
    model["stmt"] = {
        "lines_cold": cold[1], "lines_warm": warm[1], "lines_mutator_functions": mut[1], "result": warm[0],
        "fail": [f1[0], f1[2].fault_fired, f1[2].fault_where], "interrupt": [f2[0], f2[2].fault_fired, f2[2].fault_where],
        "trace_off_afterwards": sys.gettrace() is None,
    }

    return {
        "model": model,
        "sim_pools": ctx.n_pools,
        "sum": [float(x) for x in r],
        "nansum": float(s),
        "foreign_pool_class": real,
        "foreign_map": got,
        "boundscheck": bool(numba.config.BOUNDSCHECK),
        "state": {k: v for k, v in seams.STATE.items() if k != "real"},
    }


def selfcheck(seed, workers):
    t0 = time.time()
    pools = runner.Pools(1)
    try:
        info = pools.submit(0, _job_interception).result(timeout=600)
    finally:
        pools.close()
    print("selfcheck:", info)
    ok = (
        info["sim_pools"] >= 2
        and info["sum"] == [1.0, 5.0, 9.0]
        and info["nansum"] == 45.0
        and info["foreign_pool_class"] == "ThreadPoolExecutor"
        and info["foreign_map"] == [2, 3]
        and info["boundscheck"]
        and info["model"]["fifo_result"] == [0, 1, 4, 9, 16]
        and info["model"]["fifo_exec_order"] == [0, 1, 2, 3, 4]
        and info["model"]["fifo_delivery"] == [0, 1, 2, 3, 4]
        and info["model"]["reordered_schedules_of_20"] >= 10
        and info["model"]["task_fault"] == ["InjectedFault", [0, 2, 3, 4], "task_fail_before"]
        and info["model"]["spawn_fault"][0] == "InjectedSpawnFailure"
        and info["model"]["spawn_fault"][2] == "spawn_fail"
        and info["model"]["interrupt"] == ["InjectedInterrupt", [0, 1, 2, 3, 4], "consumer_interrupt"]
        and info["model"]["stmt"]["lines_cold"] == info["model"]["stmt"]["lines_warm"] > 20
        and 0 < info["model"]["stmt"]["lines_mutator_functions"] < info["model"]["stmt"]["lines_warm"]
        and info["model"]["stmt"]["fail"][:2] == ["InjectedFault", "stmt_fail"]
        and info["model"]["stmt"]["interrupt"][:2] == ["InjectedInterrupt", "stmt_interrupt"]
        and info["model"]["stmt"]["fail"][2] == info["model"]["stmt"]["interrupt"][2]
        and info["model"]["stmt"]["trace_off_afterwards"]
    )
    if not ok:
        print("HARNESS-ERROR: seam interception self-check failed")
        return 2
    rc = selftest(seed, 16, min(workers, 4), _available(["C04", "C20"]))
    print(f"selfcheck done in {time.time() - t0:.1f}s")
    return rc


def selftest(seed, pairs, workers, props):
    props = _available(props)
    bad = 0
    for prop in props:
        mod = runner.prop_module(prop)
        plan = runner.plan_runs(mod, "quick", mod.n_runs("quick"))
        cfg = {"tier": "quick", "n_classes": len(plan[0]), "fault_every": int(os.environ.get("GBSIM_FAULT_EVERY") or getattr(mod, "FAULT_EVERY", 5)), "samples_per_job": 0, "seed": seed}
        a = runner.Pools(workers)
        try:
            res = runner.determinism_selftest(prop, "quick", seed, plan, cfg, pairs, a)
        finally:
            a.close()
        print(f"selftest {prop}: pairs={res['pairs']} mismatches={len(res['mismatches'])}")
        for m in res["mismatches"][:5]:
            print("  MISMATCH", m)
        bad += len(res["mismatches"])
    if bad:
        print("HARNESS-ERROR: determinism self-test failed")
        return 2
    return 0
