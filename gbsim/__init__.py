"""gbsim -- deterministic simulation with fault injection for groupby-lib.

Importing this package changes nothing.  `gbsim.seams.install()` must be called
(in a worker process, before `groupby_lib` is imported) to take ownership of the
thread pool, the simulated machine and the strategy knobs; it refuses to act
unless GROUPBY_LIB_VERIF=1 is set in the environment.
"""

GUARD_ENV = "GROUPBY_LIB_VERIF"
DEFAULT_SEED = 20260926
