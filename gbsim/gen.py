"""Logical datasets, containers/layouts and strategies for the public-API checks
(C03, C13, C19).  A dataset is a plain JSON-able description drawn from the
scenario stream; `build_*` turn it into the objects handed to the library under
a given layout.  The same logical dataset can therefore be materialised as the
baseline (contiguous NumPy / pandas) and under any drawn chunk layout.
"""

from __future__ import annotations

import os

import numpy as np

from .choices import Choices

MIN_INT = np.iinfo(np.int64).min


def digest(obj) -> str:
    """Stable digest of a JSON-able scenario (identical before and after a JSON round trip)."""
    import hashlib
    import json

    return hashlib.blake2b(json.dumps(obj, sort_keys=True, default=str).encode(), digest_size=8).hexdigest()

# kinds that can take the chunk-wise route appear twice: that is where strategies differ
KEY_KINDS_QUICK = ["int", "float_nan", "str_object", "categorical", "datetime_nat", "bool", "str_u", "str_series", "int_neg", "float_nan", "datetime_nat", "int", "str_u"]
NULLABLE = {"float_nan", "str_object", "categorical", "datetime_nat", "str_series"}
ARROW_OK = {"int", "float_nan", "int_neg"}  # kinds whose keys can be given as a pyarrow.ChunkedArray

VAL_ALPHA = {
    "float64": [1.0, np.nan, 0.0, -2.0, 0.5, 3.0, 7.0],
    "float32": [1.0, np.nan, 0.0, -2.0, 0.5, 3.0, 7.0],
    "int64": [1, MIN_INT, 0, -2, 3, 7, 5],
    "int32": [1, 9, 0, -2, 3, 7, 5],
    "uint8": [1, 9, 0, 2, 3, 7, 5],
    "bool": [True, False, True, False, False, True, True],
    "datetime64[ns]": [1, MIN_INT, 0, 5, 1000, 1_600_000_000_000_000_000, 86_400_000_000_000],
    "timedelta64[ns]": [1, MIN_INT, 0, -5, 1000, 3_600_000_000_000, 7],
}
ARB_FLOATS = [0.1, np.nan, 1e-3, -3.7, 2.5e5, 1 / 3, -1e-7, 123.456, 9.99e5]


# ---------------------------------------------------------------------------
# dataset
# ---------------------------------------------------------------------------


def gen_dataset(s: Choices, vdtype: str, tier: str, max_n: int = 200, allow_multi=True, key_kinds=None, max_cols=3, min_n=1):
    ds = {}
    kinds = key_kinds or KEY_KINDS_QUICK
    nkeys = 2 if (allow_multi and s.chance(1, 6)) else 1
    ds["key_kinds"] = [kinds[s.draw(len(kinds))] for _ in range(nkeys)]
    g = 1 + s.weighted([(3, 1), (3, 2), (2, 0), (2, 3), (1, 4), (1, 5)])
    gs = []
    for kk in ds["key_kinds"]:
        gs.append(min(g, 2) if kk == "bool" else g)
    ds["g"] = gs
    ncols = 1 + s.weighted([(5, 0), (3, 1), (1, 2)])
    ncols = min(ncols, max_cols)
    cols = []
    for c in range(ncols):
        dt = vdtype if c == 0 or s.draw(2) == 0 else "float64"
        arb = dt.startswith("float") and s.chance(1, 8)
        cols.append({"dtype": dt, "arb": arb, "name": f"v{c}", "inf": arb and s.chance(1, 3)})
    ds["named"] = bool(s.draw(2))
    # how several value columns are handed over (a mapping, a list, a frame, a 2-D array)
    ds["values_form"] = s.weighted([(4, "dict"), (2, "list"), (2, "dataframe"), (1, "ndarray2d")])
    ds["index"] = s.weighted([(3, "range"), (1, "custom")])
    size_class = s.weighted([(7, 0), (5, 1), (1, 2)])
    if size_class == 0:
        n = 1 + s.draw(24)
    elif size_class == 1:
        n = 25 + s.draw(36)
    else:
        n = 61 + s.draw(max(1, max_n - 60))
    n = max(min(n, max_n), min_n)
    # rows: key code(s), value letter(s), mask bit  -- a fixed number of draws per row
    key_codes = [[] for _ in range(nkeys)]
    val_idx = [[] for _ in range(ncols)]
    mask_bits = []
    null_rate = s.weighted([(4, 0), (3, 1), (1, 2)])  # none / some / many null keys
    n_target = n
    n = 0
    while n < max_n:
        row_start = s.begin()
        # "one more row?" -- decided by the size drawn above when generating, read
        # back from the list when replaying (so that a row can be deleted)
        if not s.forced(1 if n < n_target else 0):
            break
        n += 1
        for k in range(nkeys):
            gk = gs[k]
            c = s.draw(gk + 2)
            if c >= gk:
                nullable = ds["key_kinds"][k] in NULLABLE and null_rate > 0
                if nullable and (c == gk or null_rate == 2):
                    c = -1
                else:
                    c = c % gk
            key_codes[k].append(c)
        for c_ in range(ncols):
            val_idx[c_].append(s.draw(7))
        mask_bits.append(s.draw(2))
        s.end(row_start)
    if n == 0:  # at least one row
        n = 1
        for k in range(nkeys):
            key_codes[k].append(0)
        for c_ in range(ncols):
            val_idx[c_].append(0)
        mask_bits.append(0)
    # placement of the first key
    placement = s.weighted([(4, "random"), (3, "sorted"), (3, "sorted_prefix"), (2, "group_per_block"), (1, "late_rare")])
    codes = key_codes[0]
    nn_pos = [i for i, c in enumerate(codes) if c >= 0]
    if placement == "sorted":
        srt = sorted(codes[i] for i in nn_pos)
        for i, c in zip(nn_pos, srt):
            codes[i] = c
    elif placement == "sorted_prefix":
        frac = s.weighted([(2, 3), (1, 1), (1, 2), (2, 4), (1, 6)])  # eighths of n: <1/4, =1/4, >1/4 ...
        m = max(1, min(n, (n * frac) // 8 + (1 if frac == 3 else 0)))
        ds["prefix_len"] = m
        pre = [i for i in nn_pos if i < m]
        srt = sorted(codes[i] for i in pre)
        for i, c in zip(pre, srt):
            codes[i] = c
        if m < n and m >= 1 and codes[m] >= 0 and codes[m - 1] > 0:
            codes[m] = 0  # break monotonicity right after the prefix
    elif placement == "group_per_block":
        order = list(range(gs[0]))
        # rotate the group order so that the sequence is not monotonic
        rot = s.draw(max(1, gs[0]))
        order = order[rot:] + order[:rot]
        rank = {c: r for r, c in enumerate(order)}
        srt = sorted((codes[i] for i in nn_pos), key=lambda c: rank[c])
        for i, c in zip(nn_pos, srt):
            codes[i] = c
    elif placement == "late_rare" and n >= 2 and gs[0] >= 2:
        last = gs[0] - 1
        for i in range(n):
            if codes[i] == last:
                codes[i] = 0
        codes[-1] = last
    ds["placement"] = placement
    ds["n"] = n
    ds["key_codes"] = key_codes
    # null patterns of values
    for c_, col in enumerate(cols):
        pat = s.weighted([(6, "as_drawn"), (1, "none"), (1, "prefix"), (1, "suffix"), (1, "all")])
        idx = val_idx[c_]
        if pat == "none":
            idx = [0 if i == 1 else i for i in idx]
        elif pat == "prefix":
            cut = s.draw(n + 1)
            idx = [1 if j < cut else i for j, i in enumerate(idx)]
        elif pat == "suffix":
            cut = s.draw(n + 1)
            idx = [1 if j >= cut else i for j, i in enumerate(idx)]
        elif pat == "all":
            idx = [1] * n
        col["idx"] = idx
        col["nullpat"] = pat
        col["inf_pair"] = None
        if col["dtype"].startswith("float") and n >= 2 and s.chance(1, 8):
            # +inf and -inf in two adjacent rows of one group: a block holding both has a NaN
            # partial sum without holding a null
            off = s.draw(n - 1)
            for d in range(n - 1):
                p = (off + d) % (n - 1)
                if all(kc[p] == kc[p + 1] and kc[p] >= 0 for kc in key_codes):
                    col["inf_pair"] = p
                    break
    ds["cols"] = cols
    ds["mask_bits"] = mask_bits
    return ds


def gen_mask(s: Choices, ds, kinds=("none", "bool", "slice", "positions")):
    n = ds["n"]
    w = {"none": 5, "bool": 4, "slice": 3, "positions": 2}
    mk = s.weighted([(w[k], k) for k in kinds])
    if mk == "none":
        return {"kind": "none"}
    if mk == "bool":
        style = s.weighted([(5, "random"), (1, "all_true"), (1, "all_false"), (2, "block"), (1, "one_group_out")])
        if style == "random":
            bits = [bool(b) for b in ds["mask_bits"]]
        elif style == "all_true":
            bits = [True] * n
        elif style == "all_false":
            bits = [False] * n
        elif style == "block":
            a, b = sorted((s.draw(n + 1), s.draw(n + 1)))
            bits = [a <= i < b for i in range(n)]
        else:
            gone = s.draw(ds["g"][0])
            bits = [c != gone for c in ds["key_codes"][0]]
        return {"kind": "bool", "bits": bits, "container": s.weighted([(3, "ndarray"), (1, "series")])}
    if mk == "slice":
        def bound():
            k = s.draw(6)
            if k == 0:
                return None
            if k >= 4:
                # on or next to a likely chunk boundary (halves, thirds, quarters of the rows)
                den = [4, 2, 3][s.draw(3)]
                v = (n * (1 + s.draw(den - 1 if den > 1 else 1))) // den + s.draw(3) - 1
                return max(0, min(n, v)) if k == 4 else -max(0, min(n, v))
            v = s.draw(n + 2)
            return v if k in (1, 2) else -v
        return {"kind": "slice", "start": bound(), "stop": bound()}
    style = s.weighted([(3, "sorted_unique"), (2, "unsorted"), (2, "repeated"), (2, "negative"), (1, "negative_ascending")])
    m = s.draw(n + 2)
    if style == "negative_ascending":
        # ascending as numbers, not as rows (negative positions wrap around)
        pos = sorted(set(s.draw(n) - (n if s.draw(2) else 0) for _ in range(m + 1)))
    elif style == "negative":
        # positions counted from the end mixed with ordinary ones (array-indexing semantics)
        pos = [s.draw(n) - (n if s.draw(2) else 0) for _ in range(m + 1)]
    elif style == "sorted_unique":
        pos = sorted(set(s.draw(n) for _ in range(m)))
    elif style == "unsorted":
        pos = list(dict.fromkeys(s.draw(n) for _ in range(m)))
    else:
        pos = [s.draw(n) for _ in range(m + 1)]
        pos.append(pos[0])
    return {"kind": "positions", "pos": pos, "style": style}


def mask_rows(ds, mask):
    n = ds["n"]
    k = mask["kind"]
    if k == "none":
        return list(range(n))
    if k == "bool":
        return [i for i, b in enumerate(mask["bits"]) if b]
    if k == "slice":
        return list(range(n))[slice(mask["start"], mask["stop"])]
    return [p % n if n else p for p in mask["pos"]]


# ---------------------------------------------------------------------------
# layouts (strategy dimension: how keys and values are chunked)
# ---------------------------------------------------------------------------


def _cuts(s: Choices, n, maxk=5):
    k = 1 + s.draw(maxk)
    if k == 1:
        # still a (single-chunk) ChunkedArray
        return [n]
    style = s.weighted([(3, "random"), (1, "one_row_chunks"), (1, "with_empty")])
    cuts = sorted(s.draw(n + 1) for _ in range(k - 1))
    if style == "one_row_chunks" and n >= 3:
        cuts = sorted(set([1, 2] + cuts))
    lens = [b - a for a, b in zip([0] + cuts, cuts + [n])]
    if style != "with_empty":
        lens = [x for x in lens if x > 0] or [n]
    return lens


def gen_layout(s: Choices, ds, chunk_keys_ok=True):
    """Layout under the *explored* strategy.  The baseline layout is all 'base'."""
    n = ds["n"]
    lay = {"keys": [], "cols": []}
    for kk in ds["key_kinds"]:
        if chunk_keys_ok and len(ds["key_kinds"]) == 1 and kk in ARROW_OK and s.chance(1, 4):
            lens = [x for x in _cuts(s, n) if x > 0] or [n]
            lay["keys"].append({"container": "arrow_chunked", "lens": lens})
        else:
            lay["keys"].append({"container": "base"})
    for col in ds["cols"]:
        # bool: no zero-copy arrow->numpy; temporal: arrow timestamp containers are a
        # container matter (C12) and the library refuses NaT/nulls in them
        can = col["dtype"] != "bool" and col["dtype"][0] not in "dt"
        if can and s.chance(1, 3):
            lay["cols"].append({"container": "arrow_chunked", "lens": _cuts(s, n)})
            if col["dtype"] == "int64":
                # sum/mean pick the null convention for int64.min from the container type
                # (ndarray: a number, anything else: null) -- a container matter the
                # properties do not settle; keep int64.min out of re-containered columns
                col["idx"] = [0 if i == 1 else i for i in col["idx"]]
        else:
            lay["cols"].append({"container": "base"})
    if any(l["container"] != "base" for l in lay["keys"] + lay["cols"]):
        # arrow containers carry neither a name nor an index: keep the logical
        # dataset free of them so that baseline and explored strategy stay comparable
        ds["named"] = False
        ds["index"] = "range"
    if any(l["container"] != "base" for l in lay["cols"]) and ds.get("values_form") in ("dataframe", "ndarray2d"):
        ds["values_form"] = "dict"  # a frame / matrix cannot hold a chunked column (same form for the baseline)
    return lay


BASE_LAYOUT = None  # build_* accept None for "everything base"


# ---------------------------------------------------------------------------
# materialisation
# ---------------------------------------------------------------------------


def _index(ds):
    import pandas as pd

    n = ds["n"]
    if ds["index"] == "custom":
        return pd.Index(np.arange(n) * 2 + 100)
    return None


def key_labels(kind, g):
    import pandas as pd

    if kind == "int":
        return [10 * (c + 1) for c in range(g)]
    if kind == "int_neg":
        return [5 * c - 10 for c in range(g)]
    if kind == "float_nan":
        return [c + 0.5 for c in range(g)]
    if kind in ("str_object", "str_u", "str_series", "categorical"):
        return list("abcdefgh"[:g])
    if kind == "bool":
        return [False, True][:g]
    if kind == "datetime_nat":
        return [np.datetime64("2020-01-01", "ns") + np.timedelta64(c, "D") for c in range(g)]
    raise AssertionError(kind)


def build_key(ds, k, lay=None):
    """The k-th key array in its container."""
    import pandas as pd
    import pyarrow as pa

    kind = ds["key_kinds"][k]
    g = ds["g"][k]
    codes = ds["key_codes"][k]
    labels = key_labels(kind, g)
    n = ds["n"]
    name = f"k{k}" if ds["named"] else None
    idx = _index(ds)
    if kind in ("int", "int_neg"):
        arr = np.array([labels[c] for c in codes], dtype="int64")
    elif kind == "float_nan":
        arr = np.array([labels[c] if c >= 0 else np.nan for c in codes], dtype="float64")
    elif kind == "str_object":
        arr = np.array([labels[c] if c >= 0 else None for c in codes], dtype=object)
    elif kind == "str_u":
        arr = np.array([labels[c] for c in codes], dtype="<U1") if n else np.array([], dtype="<U1")
    elif kind == "str_series":
        arr = pd.Series([labels[c] if c >= 0 else None for c in codes], dtype="str", name=name, index=idx)
        return arr
    elif kind == "bool":
        arr = np.array([labels[c] for c in codes], dtype=bool)
    elif kind == "datetime_nat":
        arr = np.array([labels[c] if c >= 0 else np.datetime64("NaT", "ns") for c in codes], dtype="datetime64[ns]")
    elif kind == "categorical":
        cats = list(labels) + ["z"]  # "z" is never used
        return pd.Categorical.from_codes(np.array(codes, dtype="int8"), categories=cats)
    else:
        raise AssertionError(kind)
    container = "base" if lay is None else lay["keys"][k]["container"]
    if container == "arrow_chunked":
        lens = lay["keys"][k]["lens"]
        bounds = np.cumsum([0] + list(lens))
        return pa.chunked_array([pa.array(arr[a:b]) for a, b in zip(bounds[:-1], bounds[1:])])
    if ds["named"] or idx is not None:
        return pd.Series(arr, name=name, index=idx)
    return arr


def build_keys(ds, lay=None):
    ks = [build_key(ds, k, lay) for k in range(len(ds["key_kinds"]))]
    if len(ks) == 1:
        return ks[0]
    return ks


def col_array(col):
    dt = col["dtype"]
    alpha = ARB_FLOATS if (col["arb"] and dt.startswith("float")) else VAL_ALPHA[dt]
    raw = [alpha[i % len(alpha)] for i in col["idx"]]
    if dt[0] in "dt":
        return np.array(raw, dtype="int64").view(dt)
    out = np.array(raw, dtype=dt)
    if col.get("inf") and dt.startswith("float"):
        # +inf and -inf: a block sum can then be NaN without any null in the block
        idx = np.array(col["idx"], dtype=np.int64)
        out[idx == 4] = np.inf
        out[idx == 6] = -np.inf
    p = col.get("inf_pair")
    if p is not None and dt.startswith("float") and p + 1 < len(out):
        out[p], out[p + 1] = np.inf, -np.inf
    return out


def build_col(ds, c, lay=None, writable=True):
    import pandas as pd
    import pyarrow as pa

    col = ds["cols"][c]
    arr = col_array(col)
    container = "base" if lay is None else lay["cols"][c]["container"]
    if container == "arrow_chunked":
        lens = lay["cols"][c]["lens"]
        bounds = np.cumsum([0] + list(lens))
        dt = col["dtype"]
        if dt[0] in "dt":
            atype = pa.timestamp("ns") if dt[0] == "d" else pa.duration("ns")
            chunks = [pa.array(arr[a:b].view("int64")).view(atype) for a, b in zip(bounds[:-1], bounds[1:])]
        else:
            chunks = [pa.array(arr[a:b]) for a, b in zip(bounds[:-1], bounds[1:])]
        return pa.chunked_array(chunks, type=chunks[0].type)
    idx = _index(ds)
    if ds["named"] or idx is not None:
        return pd.Series(arr, name=col["name"] if ds["named"] else None, index=idx)
    return arr


def build_values(ds, lay=None, cols=None):
    """Single column -> the array itself; several -> dict name -> array."""
    import pandas as pd

    cols = list(range(len(ds["cols"]))) if cols is None else cols
    if len(cols) == 1:
        return build_col(ds, cols[0], lay)
    form = ds.get("values_form", "dict")
    chunked = lay is not None and any(lay["cols"][c]["container"] != "base" for c in cols)
    if chunked and form in ("dataframe", "ndarray2d"):
        form = "dict"  # a frame / matrix cannot hold a chunked column
    built = {ds["cols"][c]["name"]: build_col(ds, c, lay) for c in cols}
    if form == "list":
        return list(built.values())
    if form == "dataframe":
        return pd.DataFrame({k: np.asarray(v) for k, v in built.items()}, index=_index(ds))
    if form == "ndarray2d" and len({ds["cols"][c]["dtype"] for c in cols}) == 1:
        return np.column_stack([np.asarray(v) for v in built.values()])
    return built


def build_mask(ds, mask):
    import pandas as pd

    k = mask["kind"]
    if k == "none":
        return None
    if k == "bool":
        arr = np.array(mask["bits"], dtype=bool)
        if mask.get("container") == "series":
            return pd.Series(arr, index=_index(ds))
        return arr
    if k == "slice":
        return slice(mask["start"], mask["stop"])
    return np.array(mask["pos"], dtype="int64")


# ---------------------------------------------------------------------------
# strategy
# ---------------------------------------------------------------------------


def gen_strategy(s: Choices, ds):
    n = ds["n"]
    st = {}
    st["threshold"] = s.weighted([(3, 1), (2, 2), (2, 4), (2, 8), (1, 16), (1, "n"), (1, "n+1"), (3, None)])
    if st["threshold"] == "n":
        st["threshold"] = n
    elif st["threshold"] == "n+1":
        st["threshold"] = n + 1
    st["rows_per_thread"] = s.weighted([(3, None), (2, 1), (2, 2), (2, 4), (2, 8), (1, 16), (1, 64)])
    st["key_chunks"] = s.weighted([(4, 4), (1, 1), (2, 2), (2, 3), (1, 5), (1, 8)])
    st["chunk_flag"] = not s.chance(1, 8)
    st["cpu"] = s.weighted([(4, 4), (1, 1), (1, 2), (1, 3), (1, 8), (1, 16), (1, 64)])
    st["workers"] = s.weighted([(5, None), (2, 1), (2, 2), (1, 3), (1, 5), (1, 8)])
    st["numba_threads"] = 1 + s.draw(2)
    # pre-emptive pool model: task bodies in real threads, one at a time, pre-empted at drawn
    # library lines (fault-free configurations only; DESIGN 9.5)
    st["preempt"] = s.chance(1, 3)
    return st


BASELINE_STRATEGY = {
    "threshold": 10**12,
    "rows_per_thread": 10**12,
    "key_chunks": 4,
    "chunk_flag": True,
    "cpu": 4,
    "workers": 1,
    "numba_threads": 1,
}


def apply_strategy(st):
    from . import seams

    seams.set_knobs(
        threshold=st["threshold"],
        rows_per_thread=st["rows_per_thread"],
        key_chunks=st["key_chunks"],
        numba_threads=st["numba_threads"],
    )


STMT_KINDS = ("stmt_fail", "stmt_interrupt")


def gen_fault(s: Choices, stmt: bool = False):
    """A fault plan.  Pool-level kinds carry `k` (which task / submit / wait); statement-level
    kinds (only where the caller asks for them) carry `pos` (per-mille position among the
    library's Python line events of the call, scaled at execution time by a traced dry run)
    and `mode` (0: any library line, 1: lines of functions that store attributes / elements,
    2: the lines reached right after an attribute of `self` was re-bound)."""
    pairs = [(3, "task_fail_before"), (3, "task_fail_after"), (2, "spawn_fail"), (2, "consumer_interrupt")]
    if stmt:
        pairs += [(4, "stmt_fail"), (6, "stmt_interrupt")]
    only = os.environ.get("GBSIM_FAULT_KINDS")  # development aid (focused exploration); never set by registered commands
    if only:
        pairs = [p_ for p_ in pairs if p_[1] in only.split(",")] or pairs
    kind = s.weighted(pairs)
    f = {"kind": kind, "k": s.small(9)}
    if kind in STMT_KINDS:
        f["pos"] = s.draw(1000)
        f["mode"] = s.weighted([(1, 0), (1, 1), (2, 2)])
    return f


def arm_stmt_fault(fault, n_lines):
    """The fault plan with its absolute line position (`at`), given the dry run's line count."""
    if not fault or fault.get("kind") not in STMT_KINDS:
        return fault
    return dict(fault, at=(fault["pos"] * max(1, int(n_lines))) // 1000)
