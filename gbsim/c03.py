"""C03 -- results do not depend on the execution strategy.

System under simulation: the public GroupBy API, whole library real, thread pool,
machine size and strategy literals owned by the simulator.

Oracle (relational, no external reference): for each operation, on a fresh GroupBy
per operation and per strategy, outcome under the explored strategy S (drawn
threshold / rows-per-thread / key chunks / cpu_count / workers / chunk layout of
keys and values / schedule) must equal the outcome under the baseline strategy S0
(whole factorization, one thread, contiguous inputs, one worker), and the same S
under a second independently drawn schedule must agree with the first.  In the
fault configuration a call with an injected worker failure either raises or
returns the baseline's value.
"""

from __future__ import annotations

import hashlib

import numpy as np

from . import compare, executor, gen, ops
from .choices import Choices

PROP = "C03"
BATCH = 60
SHRINK_EVALS = 400
JOB_TIMEOUT_S = 1500
VD_QUICK = ["float64", "int64", "bool", "datetime64[ns]"]
VD_THOROUGH = VD_QUICK + ["float32", "timedelta64[ns]", "int32", "uint8"]
FAMS = ["basic", "composite", "rowwise", "select"]

RULE = (
    "one run = one (value dtype, operation family) class + a logical dataset (1-2 keys of a drawn kind: int, float with NaN, str as object/"
    "<U/pandas-str Series, bool, datetime with NaT, categorical with an unused category; n<=200, 70% <=24; key placement random/sorted/sorted prefix "
    "of <1/4,=1/4,>1/4.. of the rows/group-per-block/late rare group; 1-3 value columns; masks none/bool/slice/positions incl. repeated and unsorted) "
    "+ 1-3 operations of the family + a strategy (chunking threshold, rows per numba thread, key chunks, factorize_large_inputs_in_chunks, cpu_count, "
    "pool workers, numba threads, pyarrow chunk layout of keys and of each value column) + two schedule streams; every 5th run is the fault configuration. "
    "Non-trivial: the strategy made the run differ from the baseline in at least one of {chunked keys, >1 row block, chunked values}, the data has >=2 "
    "groups, at least one simulated pool with >=2 tasks ran and its schedule was not FIFO. Distinct: blake2b of (dataset, ops, layout, strategy)."
)
ASSUMPTIONS = [
    "tasks are atomic; prange schedule of numba-parallel loops is not owned (thread count only)",
    "comparison ignores index dtype and integer width; sums/means/variances of arbitrary floats are compared within 4*n*u*sum|x| (resp. the sum-of-squares bound), everything else exactly",
    "explicit refusals (NotImplementedError) are not generated / not compared",
    "the baseline strategy is the oracle: a defect that is identical under every strategy is not a C03 violation and is not reported",
]
EXPECTED_PROBES = [
    "key_chunked_with_pointers", "fully_monotonic", "monotonic_prefix_used", "key_arrow_chunked", "values_chunked", "blocks_gt1",
    "nested_pool", "completion_order_not_fifo", "consumer_interleaved_with_tasks", "null_keys", "cpu_count_1",
]


def classes(tier):
    vds = VD_QUICK if tier == "quick" else VD_THOROUGH
    out = [[v, f] for v in vds for f in FAMS]
    return out


def n_runs(tier):
    return 5_000 if tier == "quick" else 200_000


def _outcome(fn):
    try:
        return ("ok", compare.canon(fn()))
    except NotImplementedError as e:
        return ("refused", "NotImplementedError", str(e)[:120])
    except BaseException as e:  # noqa: BLE001
        if isinstance(e, (KeyboardInterrupt, SystemExit, executor.ProtocolError)):
            raise
        return ("raise", type(e).__name__, str(e)[:160])


def _execute(ds, lay, st, op, sort, ctx):
    from groupby_lib.groupby.core import GroupBy

    gen.apply_strategy(st)
    info = {}

    def go():
        keys = gen.build_keys(ds, lay)
        values = gen.build_values(ds, lay, op["cols"])
        mask = gen.build_mask(ds, ops.op_mask(op))
        gb = GroupBy(keys, sort=sort, factorize_large_inputs_in_chunks=st["chunk_flag"])
        info["gb"] = gb
        _repr_probe(gb, info, st, ds, lay)
        return ops.call_op(gb, op, values, mask, ds)

    with executor.use_context(ctx):
        out = _outcome(go)
    return out, info


def _repr_probe(gb, info, st=None, ds=None, lay=None):
    """Which key representation did the constructor produce (evidence only)."""
    try:
        import pyarrow as pa

        ik = getattr(gb, "_group_ikey", None)
        ptr = getattr(gb, "_group_key_pointers", None)
        if isinstance(ik, pa.ChunkedArray):
            if ptr is not None:
                base_key = lay is None or lay["keys"][0]["container"] == "base"
                prefix = base_key and st is not None and len(ik.chunks) == st["key_chunks"] + 1
                info["repr"] = "prefix+chunks" if prefix else "chunked+pointers"
            else:
                info["repr"] = "chunked-unified"
        else:
            big = st is not None and ds is not None and st["chunk_flag"] and isinstance(st["threshold"], int) and st["threshold"] <= ds["n"]
            arrow_key = lay is not None and lay["keys"][0]["container"] != "base"
            chunkable = ds is not None and len(ds["key_kinds"]) == 1 and ds["key_kinds"][0] in ("int", "int_neg", "float_nan", "datetime_nat", "str_u")
            info["repr"] = "monotonic" if ((big or arrow_key) and chunkable) else "contiguous"
    except Exception:
        info["repr"] = "?"


def run_one(scen: Choices, sched: Choices, cls, cfg):
    vdtype, family = cls
    tier = cfg.get("tier", "quick")
    ds = gen.gen_dataset(scen, vdtype, tier, max_n=200 if tier == "thorough" else 120)
    sort = not scen.chance(1, 6)
    lay = gen.gen_layout(scen, ds)
    st = gen.gen_strategy(scen, ds)
    nops = 1 + scen.weighted([(3, 0), (2, 1), (1, 2)])
    op_list = [ops.gen_op(scen, family, ds) for _ in range(nops)]
    fault = gen.gen_fault(scen) if cfg.get("fault_mode") else None

    rec = {"violations": [], "probes": [], "faults": [], "interleavings": [], "ticks": 0, "nontrivial": False, "n_pools": 0}
    null_keys = any(c < 0 for kc in ds["key_codes"] for c in kc)
    key_kind = ds["key_kinds"][0] if len(ds["key_kinds"]) == 1 else "multi"
    ngroups_present = len(set(c for c in ds["key_codes"][0] if c >= 0))
    probes = set()
    if null_keys:
        probes.add("null_keys")
    if st["cpu"] == 1:
        probes.add("cpu_count_1")
    if any(l["container"] == "arrow_chunked" for l in lay["cols"]):
        probes.add("values_chunked")
    if any(l["container"] == "arrow_chunked" for l in lay["keys"]):
        probes.add("key_arrow_chunked")
    results_digest = []
    events = []
    max_tasks = 0
    not_fifo = False
    differs_from_baseline = False

    ds_full = ds
    for op in op_list:
        ds = ops.sanitize(ds_full, op)
        mask = ops.op_mask(op)
        rows = gen.mask_rows(ds, mask)
        tol = ops.tolerance(op, ds, rows)
        unordered = op["op"] in ops.UNORDERED
        opname = op["op"] + ("_transform" if op.get("transform") else "")
        site = {"property": PROP, "op": opname}
        features = {
            "key_kind": key_kind,
            "null_keys": "present" if null_keys else "none",
            "mask": mask["kind"] if mask["kind"] != "positions" else "positions_" + mask["style"],
            "vdtype": vdtype,
            "sort": sort,
        }

        def add(check, outcome, expected, actual, **kw):
            rec["violations"].append({"site": dict(site, check=check, outcome=outcome, **kw), "features": dict(features), "expected": expected, "actual": actual})

        # ---- baseline ----
        ctx0 = executor.SimContext(sched=Choices(replay=[]), workers=1, cpu_count=4)
        base, _ = _execute(ds, None, gen.BASELINE_STRATEGY, op, sort, ctx0)
        if base[0] == "refused":
            probes.add("refused_by_baseline")
            continue

        def judge(check, got, ref, fired=None):
            if got[0] == "refused":
                probes.add("refused_under_strategy")
                return
            if ref[0] == "raise":
                if got[0] == "ok":
                    add(check, "returns_vs_raises", f"raise {ref[1]}: {ref[2]}", compare.short(got[1]), exc=ref[1])
                return
            if got[0] == "raise":
                if fired is None:
                    add(check, "raises_vs_returns", compare.short(ref[1]), f"{got[1]}: {got[2]}", exc=got[1])
                return
            d = compare.diff(ref[1], got[1], tol=tol, unordered=unordered)
            if d is not None:
                kind = "label_diff" if d.startswith(("labels", "index", "length", "columns", "container")) else "value_diff"
                add(check, kind, compare.short(ref[1]), d)

        if fault is None:
            ctxa = executor.SimContext(sched=sched, workers=st["workers"], cpu_count=st["cpu"], monitor=True)
            ra, info = _execute(ds, lay, st, op, sort, ctxa)
            features["key_repr"] = info.get("repr", "?")
            judge("strategy_vs_baseline", ra, base)
            ctxb = executor.SimContext(sched=sched, workers=st["workers"], cpu_count=st["cpu"])
            rb, _ = _execute(ds, lay, st, op, sort, ctxb)
            if ra[0] != "refused":
                judge("schedule_vs_schedule", rb, ra)
            ctxs = [ctxa, ctxb]
            results_digest.append((base, ra, rb))
        else:
            ctxf = executor.SimContext(sched=sched, workers=st["workers"], cpu_count=st["cpu"], fault=fault, monitor=True)
            rf, info = _execute(ds, lay, st, op, sort, ctxf)
            features["key_repr"] = info.get("repr", "?")
            features["fault"] = ctxf.fault_fired or "none"
            judge("fault_relaxed", rf, base, fired=ctxf.fault_fired)
            if ctxf.fault_fired:
                rec["faults"].append(ctxf.fault_fired)
            ctxs = [ctxf]
            results_digest.append((base, rf))
        r = info.get("repr")
        if r == "chunked+pointers":
            probes.add("key_chunked_with_pointers")
        elif r == "prefix+chunks":
            probes.add("monotonic_prefix_used")
            probes.add("key_chunked_with_pointers")
        elif r == "monotonic":
            probes.add("fully_monotonic")
        if r not in ("contiguous", "?", None) or "values_chunked" in probes:
            differs_from_baseline = True
        for c in ctxs:
            rec["ticks"] += c.ticks
            rec["n_pools"] += c.n_pools
            rec["interleavings"].extend(c.interleavings())
            events.append(c.event_digest())
            max_tasks = max(max_tasks, c.max_tasks)
            for k_, v_ in c.stats.items():
                if v_:
                    probes.add(k_)
            if c.stats.get("completion_order_not_fifo"):
                not_fifo = True
            if any(p[0] == "_apply_group_method_single_chunk" and p[1] >= 2 for p in c.pools):
                probes.add("blocks_gt1")
                differs_from_baseline = True
            if c.hazards:
                probes.add("hazard_task_wrote_argument")
                rec.setdefault("hazards", []).extend([list(map(str, h)) for h in c.hazards[:2]])

    rec["probes"] = sorted(probes)
    rec["nontrivial"] = bool(differs_from_baseline and ngroups_present >= 2 and max_tasks >= 2 and not_fifo)
    ds = ds_full
    rec["digest"] = hashlib.blake2b(repr((cls, ds, lay, st, op_list, sort)).encode(), digest_size=8).hexdigest()
    rec["events"] = hashlib.blake2b(repr(events).encode(), digest_size=8).hexdigest()
    rec["result"] = hashlib.blake2b(repr(results_digest).encode(), digest_size=8).hexdigest()
    rec["max_tasks"] = max_tasks
    if cfg.get("want_sample"):
        rec["sample"] = {
            "dataset": {k: ds[k] for k in ("key_kinds", "g", "n", "placement", "key_codes", "named", "index")},
            "columns": [{k: c[k] for k in ("dtype", "arb", "nullpat", "idx")} for c in ds["cols"]],
            "sort": sort,
            "layout": lay,
            "strategy": st,
            "ops": op_list,
            "fault": fault,
            "outcomes": [[(o[0], compare.short(o[1], 200)) for o in tup] for tup in results_digest],
        }
    return rec
