"""C03 -- results do not depend on the execution strategy.

System under simulation: the public GroupBy API, whole library real, thread pool,
machine size and strategy literals owned by the simulator.

Oracle (relational, no external reference): for each operation, on a fresh GroupBy
per operation and per strategy, outcome under the explored strategy S (drawn
threshold / rows-per-thread / key chunks / cpu_count / workers / chunk layout of
keys and values / schedule) must equal the outcome under the baseline strategy S0
(whole factorization, one thread, contiguous inputs, one worker), and the same S
under a second independently drawn schedule must agree with the first.  In the
fault configuration a call with an injected worker failure either raises or
returns the baseline's value.
"""

from __future__ import annotations

import hashlib

import numpy as np

from . import compare, executor, gen, ops
from .choices import Choices

PROP = "C03"
BATCH = 60
SHRINK_EVALS = 700
JOB_TIMEOUT_S = 1500
VD_QUICK = ["float64", "int64", "bool", "datetime64[ns]"]
VD_THOROUGH = VD_QUICK + ["float32", "timedelta64[ns]", "int32", "uint8"]
FAMS = ["basic", "composite", "rowwise", "select"]

RULE = (
    "one run = one (value dtype, operation family) class + a logical dataset (1-2 keys of a drawn kind: int, float with NaN, str as object/"
    "<U/pandas-str Series, bool, datetime with NaT, categorical with an unused category; n<=200, 70% <=24; key placement random/sorted/sorted prefix "
    "of <1/4,=1/4,>1/4.. of the rows/group-per-block/late rare group; 1-3 value columns; masks none/bool/slice/positions incl. repeated and unsorted) "
    "+ 1-3 operations of the family + a strategy (chunking threshold, rows per numba thread, key chunks, factorize_large_inputs_in_chunks, cpu_count, "
    "pool workers, numba threads, pyarrow chunk layout of keys and of each value column) + two schedule streams; every 5th run is the fault configuration. "
    "Non-trivial: the strategy made the run differ from the baseline in at least one of {chunked keys, >1 row block, chunked values}, the data has >=2 "
    "groups, at least one simulated pool with >=2 tasks ran and its schedule was not FIFO. Distinct: blake2b of (dataset, ops, layout, strategy)."
)
ASSUMPTIONS = [
    "task bodies are atomic in the task-atomic pool model and pre-empted only at Python line events of groupby_lib frames in the pre-emptive model (one fault-free run in three); compiled kernels and pandas / NumPy calls are never split; prange schedule of numba-parallel loops is not owned (thread count only)",
    "statement-level faults are line-granular: raised before an admissible Python line of the library (DESIGN 9.4), never inside a kernel",
    "comparison ignores index dtype and integer width; sums/means/variances of arbitrary floats are compared within 4*n*u*sum|x| (resp. the sum-of-squares bound), everything else exactly",
    "explicit refusals (NotImplementedError) are not generated / not compared",
    "the baseline strategy is the oracle: a defect that is identical under every strategy is not a C03 violation and is not reported",
]
EXPECTED_PROBES = [
    "key_chunked_with_pointers", "fully_monotonic", "monotonic_prefix_used", "key_arrow_chunked", "values_chunked", "blocks_gt1",
    "nested_pool", "completion_order_not_fifo", "consumer_interleaved_with_tasks", "null_keys", "cpu_count_1",
    "stmt_fault_armed", "preemptive_pools", "tasks_interleaved_inside_bodies", "retry_after_fault", "shared_object_arm", "strategy_before_baseline",
]


REAL_PATTERNS = ["sorted", "sorted_prefix", "random_late_rare", "categorical", "multikey_highcard"]


def classes(tier):
    vds = VD_QUICK if tier == "quick" else VD_THOROUGH
    out = [[v, f] for v in vds for f in FAMS]
    out += [["real", p] for p in REAL_PATTERNS]
    return out


def class_weights(tier):
    vds = VD_QUICK if tier == "quick" else VD_THOROUGH
    n_small = len(vds) * len(FAMS)
    # real-scale runs cost seconds each: 16 of 5000 in quick, 0.75% in thorough
    real_share = 0.003 if tier == "quick" else 0.0075
    w_small = (1.0 - real_share) / n_small
    return [w_small] * n_small + [real_share / len(REAL_PATTERNS)] * len(REAL_PATTERNS)


def n_runs(tier):
    return 7_000 if tier == "quick" else 400_000


def _outcome(fn):
    try:
        return ("ok", compare.canon(fn()))
    except NotImplementedError as e:
        return ("refused", "NotImplementedError", compare.msg(e, 120))
    except BaseException as e:  # noqa: BLE001
        if isinstance(e, (KeyboardInterrupt, SystemExit, executor.ProtocolError)) and not isinstance(e, executor.InjectedInterrupt):
            raise
        return ("raise", type(e).__name__, compare.msg(e, 160))


def _execute(ds, lay, st, op, sort, ctx, tracer=None, holder=None):
    """One operation under strategy `st`.  `holder` (a dict) keeps the GroupBy between the
    operations of a run in the shared-object arm: the same logical history is then executed under
    the baseline and under the strategy, and what must agree is the outcome of every call."""
    from groupby_lib.groupby.core import GroupBy

    gen.apply_strategy(st)
    info = {}

    def go():
        keys = gen.build_keys(ds, lay)
        values = gen.build_values(ds, lay, op["cols"])
        mask = gen.build_mask(ds, ops.op_mask(op))
        if holder is not None and holder.get("gb") is not None:
            gb = holder["gb"]
            info["repr"] = holder.get("repr", "?")
        else:
            gb = GroupBy(keys, sort=sort, factorize_large_inputs_in_chunks=st["chunk_flag"])
            _repr_probe(gb, info, st, ds, lay)
            if holder is not None:
                holder["gb"] = gb
                holder["repr"] = info.get("repr", "?")
        info["gb"] = gb
        return ops.call_op(gb, op, values, mask, ds, raw_keys=keys)

    with executor.use_context(ctx):
        if tracer is None:
            out = _outcome(go)
        else:
            with tracer:
                out = _outcome(go)
    return out, info


def _repr_probe(gb, info, st=None, ds=None, lay=None):
    """Which key representation did the constructor produce (evidence only)."""
    try:
        import pyarrow as pa

        ik = getattr(gb, "_group_ikey", None)
        ptr = getattr(gb, "_group_key_pointers", None)
        if isinstance(ik, pa.ChunkedArray):
            if ptr is not None:
                base_key = lay is None or lay["keys"][0]["container"] == "base"
                prefix = base_key and st is not None and len(ik.chunks) == st["key_chunks"] + 1
                info["repr"] = "prefix+chunks" if prefix else "chunked+pointers"
            else:
                info["repr"] = "chunked-unified"
        else:
            big = st is not None and ds is not None and st["chunk_flag"] and isinstance(st["threshold"], int) and st["threshold"] <= ds["n"]
            arrow_key = lay is not None and lay["keys"][0]["container"] != "base"
            chunkable = ds is not None and len(ds["key_kinds"]) == 1 and ds["key_kinds"][0] in ("int", "int_neg", "float_nan", "datetime_nat", "str_u")
            info["repr"] = "monotonic" if ((big or arrow_key) and chunkable) else "contiguous"
    except Exception:
        info["repr"] = "?"


def run_one(scen: Choices, sched: Choices, cls, cfg):
    return execute(gen_scenario(scen, cls, cfg), sched, cls, cfg)


def gen_scenario(scen: Choices, cls, cfg):
    """The complete, JSON-able scenario of one run (everything but the schedule)."""
    if cls[0] == "real":
        return gen_real(scen, cls, cfg)
    vdtype, family = cls
    tier = cfg.get("tier", "quick")
    ds = gen.gen_dataset(scen, vdtype, tier, max_n=200 if tier == "thorough" else 120)
    sort = not scen.chance(1, 6)
    lay = gen.gen_layout(scen, ds)
    st = gen.gen_strategy(scen, ds)
    nops = 1 + scen.weighted([(3, 0), (2, 1), (1, 2)])
    op_list = []
    while len(op_list) < 3:
        b_ = scen.begin()
        if not scen.forced(1 if len(op_list) < nops else 0):  # "one more operation?"
            break
        op_list.append(ops.gen_op(scen, family, ds))
        scen.end(b_)
    if not op_list:
        op_list = [ops.gen_op(Choices(replay=[]), family, ds)]
    if st.get("preempt") and len(ds["cols"]) > 1:
        # pre-emptive pool model: several value columns = several tasks whose bodies can overlap
        for op_ in op_list:
            if len(op_.get("cols", ())) == 1 and not isinstance(op_.get("funcs"), list) and op_["op"] not in ("ratio", "subset_ratio", "density", "crosstab", "value_counts") and scen.chance(2, 3):
                op_["cols"] = list(range(len(ds["cols"])))
    fault = gen.gen_fault(scen, stmt=True) if cfg.get("fault_mode") else None
    # shared-object arm: the operations of the run are applied in sequence to ONE grouping, under
    # the baseline and under the strategy alike (a dependence on the strategy that needs an earlier
    # call on the same object to show -- seeded change C03-i -- is invisible to fresh objects)
    strategy_first = fault is None and scen.chance(1, 3)
    shared = fault is None and scen.chance(1, 3)
    if shared:
        # the history opens with an operation of any family (layout-changing ones are in the
        # row-wise and select families) and, in half of the cases, ends with a masked reduction
        fam0 = scen.weighted([(3, "rowwise"), (2, "select"), (2, "composite"), (1, "basic")])
        op_list.insert(0, ops.gen_op(scen, fam0, ds))
        if scen.chance(1, 2):
            last = ops.gen_op(scen, "basic", ds)
            if last["op"] in ops.BASIC and "mask" in last:
                last["mask"] = gen.gen_mask(scen, ds, ("bool", "slice", "positions"))
            op_list.append(last)
    return {"ds": ds, "sort": sort, "lay": lay, "st": st, "ops": op_list, "fault": fault, "shared": shared, "strategy_first": strategy_first}


def execute(sc, sched: Choices, cls, cfg):
    if cls[0] == "real":
        return run_real(sc, sched, cls, cfg)
    vdtype, family = cls
    ds, sort, lay, st, op_list, fault = sc["ds"], sc["sort"], sc["lay"], sc["st"], sc["ops"], sc["fault"]
    rec = {"violations": [], "probes": [], "faults": [], "interleavings": [], "ticks": 0, "nontrivial": False, "n_pools": 0}
    null_keys = any(c < 0 for kc in ds["key_codes"] for c in kc)
    key_kind = ds["key_kinds"][0] if len(ds["key_kinds"]) == 1 else "multi"
    ngroups_present = len(set(c for c in ds["key_codes"][0] if c >= 0))
    probes = set()
    if null_keys:
        probes.add("null_keys")
    if st["cpu"] == 1:
        probes.add("cpu_count_1")
    if any(l["container"] == "arrow_chunked" for l in lay["cols"]):
        probes.add("values_chunked")
    if any(l["container"] == "arrow_chunked" for l in lay["keys"]):
        probes.add("key_arrow_chunked")
    results_digest = []
    events = []
    max_tasks = 0
    not_fifo = False
    differs_from_baseline = False

    ds_full = ds
    shared = bool(sc.get("shared"))
    hold0, holda, holdb = ({}, {}, {}) if shared else (None, None, None)
    if shared:
        probes.add("shared_object_arm")
    for op in op_list:
        ds = ops.sanitize(ds_full, op)
        mask = ops.op_mask(op)
        rows = gen.mask_rows(ds, mask)
        tol = ops.tolerance(op, ds, rows)
        unordered = op["op"] in ops.UNORDERED
        opname = op["op"] + ("_transform" if op.get("transform") else "")
        site = {"property": PROP, "op": opname}
        if op.get("via") == "api":
            probes.add("via_facade")
        features = {
            "via": op.get("via", "core"),
            "key_kind": key_kind,
            "null_keys": "present" if null_keys else "none",
            "mask": mask["kind"] if mask["kind"] != "positions" else "positions_" + mask["style"],
            "vdtype": vdtype,
            "sort": sort,
        }
        if shared:
            features["shared_object"] = True

        def add(check, outcome, expected, actual, **kw):
            rec["violations"].append({"site": dict(site, check=check, outcome=outcome, **kw), "features": dict(features), "expected": expected, "actual": actual})

        # ---- (in one run in three the strategy goes first: whatever the library keeps between calls at
        # module level then stems from the PREVIOUS run's data, not from this run's own baseline call on
        # the same logical keys -- which would make stale state coincide with fresh state; seeded change C03-k)
        pre = None
        if fault is None and sc.get("strategy_first"):
            ctxa = executor.SimContext(sched=sched, workers=st["workers"], cpu_count=st["cpu"], monitor=True, preempt=st.get("preempt", False))
            pre = _execute(ds, lay, st, op, sort, ctxa, holder=holda)
            probes.add("strategy_before_baseline")
        # ---- baseline ----
        ctx0 = executor.SimContext(sched=Choices(replay=[]), workers=1, cpu_count=4)
        base, _ = _execute(ds, None, gen.BASELINE_STRATEGY, op, sort, ctx0, holder=hold0)
        if base[0] == "refused":
            probes.add("refused_by_baseline")
            # (the two histories would differ from here on: fresh objects for the rest of the run)
            shared, hold0, holda, holdb = False, None, None, None
            continue

        def judge(check, got, ref, fired=None):
            if got[0] == "refused":
                probes.add("refused_under_strategy")
                return
            if ref[0] == "raise":
                if got[0] == "ok":
                    add(check, "returns_vs_raises", f"raise {ref[1]}: {ref[2]}", compare.short(got[1]), exc=ref[1])
                return
            if got[0] == "raise":
                if fired is None:
                    add(check, "raises_vs_returns", compare.short(ref[1]), f"{got[1]}: {got[2]}", exc=got[1])
                return
            d = compare.diff(ref[1], got[1], tol=tol, unordered=unordered)
            if d is not None:
                kind = "label_diff" if d.startswith(("labels", "index", "length", "columns", "container")) else "value_diff"
                add(check, kind, compare.short(ref[1]), d)

        if fault is None:
            if pre is not None:
                ra, info = pre
            else:
                ctxa = executor.SimContext(sched=sched, workers=st["workers"], cpu_count=st["cpu"], monitor=True, preempt=st.get("preempt", False))
                ra, info = _execute(ds, lay, st, op, sort, ctxa, holder=holda)
            features["key_repr"] = info.get("repr", "?")
            judge("strategy_vs_baseline", ra, base)
            ctxb = executor.SimContext(sched=sched, workers=st["workers"], cpu_count=st["cpu"], preempt=st.get("preempt", False))
            rb, _ = _execute(ds, lay, st, op, sort, ctxb, holder=holdb)
            if ra[0] != "refused":
                judge("schedule_vs_schedule", rb, ra)
            ctxs = [ctxa, ctxb]
            results_digest.append((base, ra, rb))
            if shared and (ra[0] == "refused" or rb[0] == "refused"):
                shared, hold0, holda, holdb = False, None, None, None
        else:
            this_fault = fault
            if fault["kind"] in gen.STMT_KINDS:
                # traced dry run under the same strategy scales the position of the statement fault
                dry = executor.LineTracer(None, mode=fault.get("mode", 0))
                ctxd = executor.SimContext(sched=sched, workers=st["workers"], cpu_count=st["cpu"])
                _execute(ds, lay, st, op, sort, ctxd, tracer=dry)
                this_fault = gen.arm_stmt_fault(fault, dry.count)
                probes.add("stmt_fault_armed")
            ctxf = executor.SimContext(sched=sched, workers=st["workers"], cpu_count=st["cpu"], fault=this_fault, monitor=True)
            rf, info = _execute(ds, lay, st, op, sort, ctxf)
            if ctxf.fault_where:
                rec.setdefault("fault_sites", []).append(ctxf.fault_where)
                features["fault_where"] = ctxf.fault_where
            features["key_repr"] = info.get("repr", "?")
            features["fault"] = ctxf.fault_fired or "none"
            judge("fault_relaxed", rf, base, fired=ctxf.fault_fired)
            ctxs = [ctxf]
            rr = None
            if ctxf.fault_fired:
                rec["faults"].append(ctxf.fault_fired)
                # the same call again (fresh grouping, no fault): nothing of the failed call may stick
                # anywhere outside the object (module-level state, scratch buffers)
                ctxr = executor.SimContext(sched=sched, workers=st["workers"], cpu_count=st["cpu"])
                rr, _ = _execute(ds, lay, st, op, sort, ctxr)
                judge("retry_after_fault", rr, base)
                probes.add("retry_after_fault")
                ctxs.append(ctxr)
            results_digest.append((base, rf, rr))
        r = info.get("repr")
        if r == "chunked+pointers":
            probes.add("key_chunked_with_pointers")
        elif r == "prefix+chunks":
            probes.add("monotonic_prefix_used")
            probes.add("key_chunked_with_pointers")
        elif r == "monotonic":
            probes.add("fully_monotonic")
        if r not in ("contiguous", "?", None) or "values_chunked" in probes:
            differs_from_baseline = True
        for c in ctxs:
            rec["ticks"] += c.ticks
            rec["n_pools"] += c.n_pools
            rec["interleavings"].extend(c.interleavings())
            events.append(c.event_digest())
            max_tasks = max(max_tasks, c.max_tasks)
            for k_, v_ in c.stats.items():
                if v_:
                    probes.add(k_)
            if c.stats.get("completion_order_not_fifo"):
                not_fifo = True
            if any(p[0] == "_apply_group_method_single_chunk" and p[1] >= 2 for p in c.pools):
                probes.add("blocks_gt1")
                differs_from_baseline = True
            rec["n_preemptions"] = rec.get("n_preemptions", 0) + c.stats.get("preemptions", 0)
            if c.preempt_sites:
                rec.setdefault("preempt_sites", set()).update(c.preempt_sites)
            if c.hazards:
                probes.add("hazard_task_wrote_argument")
                rec.setdefault("hazards", []).extend([list(map(str, h)) for h in c.hazards[:2]])

    rec["preempt_sites"] = sorted(rec.get("preempt_sites", ()))
    rec["probes"] = sorted(probes)
    rec["nontrivial"] = bool(differs_from_baseline and ngroups_present >= 2 and max_tasks >= 2 and not_fifo)
    ds = ds_full
    rec["digest"] = gen.digest((cls, sc))
    rec["scenario"] = sc
    rec["events"] = hashlib.blake2b(repr(events).encode(), digest_size=8).hexdigest()
    rec["result"] = hashlib.blake2b(repr(results_digest).encode(), digest_size=8).hexdigest()
    rec["max_tasks"] = max_tasks
    if cfg.get("want_sample"):
        rec["sample"] = {
            "dataset": {k: ds[k] for k in ("key_kinds", "g", "n", "placement", "key_codes", "named", "index")},
            "columns": [{k: c[k] for k in ("dtype", "arb", "nullpat", "idx")} for c in ds["cols"]],
            "sort": sort,
            "layout": lay,
            "strategy": st,
            "ops": op_list,
            "fault": fault,
            "outcomes": [[(o[0], compare.short(o[1], 200)) for o in tup] for tup in results_digest],
        }
    return rec


# ---------------------------------------------------------------------------
# real-scale arm: nothing rescaled except the pool and cpu_count
# ---------------------------------------------------------------------------

REAL_SIZES = [999_999, 1_000_000, 1_000_001, 1_999_999, 2_000_001, 2_999_999, 3_000_001, 4_000_000]
REAL_OPS = ["min", "max", "first", "last", "sum", "count", "size", "mean"]


def _real_dataset(sc):
    import pandas as pd
    import pyarrow as pa

    rng = np.random.RandomState(sc["dseed"])
    n, g = sc["n"], sc["g"]
    pat = sc["pattern"]
    if pat == "sorted":
        codes = np.sort(rng.randint(0, g, size=n))
    elif pat == "sorted_prefix":
        m = int(n * sc["prefix_eighths"] / 8)
        codes = rng.randint(0, g, size=n)
        codes[:m] = np.sort(codes[:m])
        if m < n:
            codes[m] = 0
    elif pat == "random_late_rare":
        codes = rng.randint(0, max(g - 1, 1), size=n)
        codes[-sc["rare_rows"] :] = g - 1
    else:  # categorical (never chunked): sorted or random codes
        codes = rng.randint(0, g, size=n)
        if sc["cat_sorted"]:
            codes = np.sort(codes)
    if pat == "categorical":
        keys = pd.Categorical.from_codes(codes.astype("int16"), categories=[f"c{j:02d}" for j in range(g)] + ["unused"])
    elif sc["key_float"]:
        keys = codes.astype(np.float64) + 0.5
        if sc["key_nan"]:
            keys[rng.randint(0, n, size=5)] = np.nan
    else:
        keys = codes.astype(np.int64) * 10
    vd = sc["vdtype"]
    if vd == "float64":
        vals = rng.randint(-50, 50, size=n).astype(np.float64)
        vals[rng.randint(0, n, size=n // 20)] = np.nan
        if sc["null_block"]:
            vals[: n // 3] = np.nan
    elif vd == "int64":
        vals = rng.randint(-50, 50, size=n).astype(np.int64)
    else:
        vals = (rng.randint(0, 10**6, size=n).astype(np.int64) * 1000 + 1_600_000_000_000_000_000).view("datetime64[ns]")
    return keys, vals


def _real_values(vals, sc):
    import pyarrow as pa

    if sc["val_cuts"] and vals.dtype.kind == "f":
        n = len(vals)
        cuts = sorted(int(n * c / 1000) for c in sc["val_cuts"])
        bounds = [0] + cuts + [n]
        return pa.chunked_array([pa.array(vals[a:b]) for a, b in zip(bounds[:-1], bounds[1:])])
    return vals


def _real_mask(sc, n):
    mk = sc["mask"]
    if mk == "none":
        return None
    if mk == "bool":
        rng = np.random.RandomState(sc["dseed"] + 7)
        m = rng.rand(n) < 0.5
        if sc["mask_block"]:
            m[: n // 2] = False
        return m
    if mk == "slice":
        q = n // 4
        a = [None, q, q - 1, q + 1, 2 * q, -q][sc["slice_a"]]
        b = [None, 3 * q, 3 * q + 1, -1, n - q][sc["slice_b"]]
        return slice(a, b)
    rng = np.random.RandomState(sc["dseed"] + 9)
    pos = rng.randint(0, n, size=1000)
    return np.concatenate([pos, pos[:10]])


def gen_real(scen: Choices, cls, cfg):
    s = scen
    sc = {"pattern": cls[1]}
    sc["n"] = REAL_SIZES[s.draw(len(REAL_SIZES))]
    sc["g"] = [10, 3, 50][s.draw(3)]
    sc["dseed"] = s.draw(10_000)
    sc["prefix_eighths"] = [3, 1, 2, 5][s.draw(4)]
    sc["rare_rows"] = [1, 3, 1000][s.draw(3)]
    sc["cat_sorted"] = bool(s.draw(2))
    sc["key_float"] = s.chance(1, 4)
    sc["key_nan"] = s.chance(1, 2)
    sc["vdtype"] = s.weighted([(3, "float64"), (1, "int64"), (1, "datetime")])
    sc["null_block"] = s.chance(1, 3)
    sc["val_cuts"] = sorted(set(1 + s.draw(999) for _ in range(s.draw(4))))
    sc["mask"] = s.weighted([(4, "none"), (2, "bool"), (2, "slice"), (1, "positions")])
    sc["mask_block"] = s.chance(1, 2)
    sc["slice_a"], sc["slice_b"] = s.draw(6), s.draw(5)
    sc["ops"] = [REAL_OPS[s.draw(len(REAL_OPS))] for _ in range(2 + s.draw(2))]
    sc["transform"] = s.chance(1, 6)
    sc["cpu"] = s.weighted([(3, 4), (1, 1), (1, 2), (1, 16), (1, 64)])
    sc["workers"] = s.weighted([(4, None), (1, 1), (1, 2), (1, 3)])
    sc["fault"] = gen.gen_fault(s) if cfg.get("fault_mode") else None
    return sc


def run_multikey_highcard(sc, sched: Choices, cls, cfg):
    """Two keys of ~100 000 distinct values each: the cartesian product of the labels
    (1e10 cells) is beyond the library's `use_dict_limit`, so the combination of the per-key
    codes goes through the hash-table tracker instead of the dense array -- a route chosen
    by cardinality that no small input reaches.  Baseline: the same grouping expressed as one
    composite integer key (k1 * W + k2), whole factorization."""
    from groupby_lib.groupby.core import GroupBy

    from . import seams

    rec = {"violations": [], "probes": ["real_scale", "multikey_hash_tracker"], "faults": [], "interleavings": [], "ticks": 0, "nontrivial": False, "n_pools": 0, "scenario": sc}
    rng = np.random.RandomState(sc["dseed"])
    n = [300_000, 200_000, 400_000][sc["g"] % 3 if isinstance(sc["g"], int) else 0]
    W = 100_000
    k1 = rng.randint(0, W, size=n).astype(np.int64)
    k2 = rng.randint(0, W, size=n).astype(np.int64)
    vals = rng.randint(-50, 50, size=n).astype(np.float64)
    seams.set_knobs(threshold=10**12, rows_per_thread=10**12)
    ctx0 = executor.SimContext(sched=Choices(replay=[]), workers=1, cpu_count=4)
    ctx = executor.SimContext(sched=sched, workers=sc["workers"], cpu_count=sc["cpu"])
    events, results = [], []
    for opname in sc["ops"][:2]:
        site = {"property": PROP, "op": opname}
        features = {"key_kind": "real_multikey_highcard", "mask": "none", "vdtype": "float64", "n": n, "null_keys": "none", "key_repr": "contiguous"}

        def call(keys, c):
            with executor.use_context(c):
                gb = GroupBy(keys)
                r = gb.size() if opname == "size" else getattr(gb, opname)(vals)
            return r

        try:
            base = call(k1 * W + k2, ctx0)
            got = call([k1, k2], ctx)
        except Exception as e:  # noqa: BLE001
            rec["violations"].append({"site": dict(site, check="strategy_vs_baseline", outcome="raises_vs_returns", exc=type(e).__name__), "features": features, "expected": "a result", "actual": compare.msg(e)})
            continue
        lab = np.asarray(base.index, dtype=np.int64)
        exp_labels = np.stack([lab // W, lab % W], axis=1)
        got_labels = np.stack([np.asarray(got.index.get_level_values(0), dtype=np.int64), np.asarray(got.index.get_level_values(1), dtype=np.int64)], axis=1)
        bad = None
        if len(base) != len(got):
            bad = ("label_diff", f"{len(base)} groups", f"{len(got)} groups")
        elif not np.array_equal(exp_labels, got_labels):
            i = int(np.nonzero((exp_labels != got_labels).any(axis=1))[0][0])
            bad = ("label_diff", f"label {i}: {exp_labels[i].tolist()}", f"{got_labels[i].tolist()}")
        elif not np.array_equal(np.asarray(base, dtype=np.float64), np.asarray(got, dtype=np.float64), equal_nan=True):
            i = int(np.nonzero(np.asarray(base, dtype=np.float64) != np.asarray(got, dtype=np.float64))[0][0])
            bad = ("value_diff", f"group {exp_labels[i].tolist()}: {float(np.asarray(base)[i])}", f"{float(np.asarray(got)[i])}")
        if bad:
            rec["violations"].append({"site": dict(site, check="strategy_vs_baseline", outcome=bad[0]), "features": features, "expected": bad[1], "actual": bad[2]})
        results.append((opname, len(got), float(np.nansum(np.asarray(got, dtype=np.float64)))))
    rec["ticks"] = ctx.ticks
    rec["n_pools"] = ctx.n_pools
    rec["interleavings"] = ctx.interleavings()
    for k_, v_ in ctx.stats.items():
        if v_:
            rec["probes"].append(k_)
    rec["nontrivial"] = ctx.max_tasks >= 2
    rec["digest"] = gen.digest((cls, sc))
    rec["events"] = ctx.event_digest()
    rec["result"] = hashlib.blake2b(repr(results).encode(), digest_size=8).hexdigest()
    if cfg.get("want_sample"):
        rec["sample"] = {"real_scale": sc, "rows": n, "distinct_per_key": W, "outcomes": results}
    return rec


def run_real(sc, sched: Choices, cls, cfg):
    from groupby_lib.groupby.core import GroupBy

    if sc["pattern"] == "multikey_highcard":
        return run_multikey_highcard(sc, sched, cls, cfg)
    fault = sc["fault"]
    rec = {"violations": [], "probes": ["real_scale"], "faults": [], "interleavings": [], "ticks": 0, "nontrivial": False, "n_pools": 0}
    keys, vals = _real_dataset(sc)
    n = sc["n"]
    mask = _real_mask(sc, n)
    probes = set(rec["probes"])
    real_st = {"threshold": None, "rows_per_thread": None, "key_chunks": None, "numba_threads": 2}
    base_st = {"threshold": 10**12, "rows_per_thread": 10**12, "key_chunks": None, "numba_threads": 1}
    events, results = [], []
    max_tasks, not_fifo = 0, False

    def execute(st, values, ctx, opname):
        from . import seams

        seams.set_knobs(threshold=st["threshold"], rows_per_thread=st["rows_per_thread"], key_chunks=st["key_chunks"], numba_threads=st["numba_threads"])
        info = {}

        def go():
            gb = GroupBy(keys)
            info["gb"] = gb
            kw = dict(mask=mask, transform=sc["transform"])
            if opname == "size":
                r = gb.size(**kw)
            else:
                r = getattr(gb, opname)(values, **kw)
            if sc["transform"]:
                # hash large row-aligned outputs instead of listing them
                a = np.asarray(r)
                if a.dtype.kind == "f":
                    a = np.where(np.isnan(a), -12345.678, a)
                return {"digest": hashlib.blake2b(np.ascontiguousarray(a).view(np.uint8).tobytes(), digest_size=12).hexdigest(), "len": len(a)}
            return r

        with executor.use_context(ctx):
            out = _outcome(go)
        return out, info

    for opname in sc["ops"]:
        site = {"property": PROP, "op": opname + ("_transform" if sc["transform"] else "")}
        features = {"key_kind": "real_" + sc["pattern"], "mask": sc["mask"], "vdtype": sc["vdtype"], "n": n, "null_keys": "present" if (sc["key_float"] and sc["key_nan"] and sc["pattern"] != "categorical") else "none"}

        def add(check, outcome, expected, actual, **kw):
            rec["violations"].append({"site": dict(site, check=check, outcome=outcome, **kw), "features": dict(features), "expected": expected, "actual": actual})

        ctx0 = executor.SimContext(sched=Choices(replay=[]), workers=1, cpu_count=4)
        base, _ = execute(base_st, vals, ctx0, opname)
        ctx = executor.SimContext(sched=sched, workers=sc["workers"], cpu_count=sc["cpu"], fault=fault)
        got, info = execute(real_st, _real_values(vals, sc), ctx, opname)
        gb = info.get("gb")
        if gb is not None:
            _repr_probe(gb, info)
            features["key_repr"] = info.get("repr", "?")
            if info.get("repr", "").startswith("chunked"):
                probes.add("key_chunked_with_pointers")
            threads = getattr(gb, "_max_threads_for_numba", None)
            if threads and threads > 1 and not info.get("repr", "").startswith("chunked"):
                probes.add("real_scale_multithread_blocks")
        fired = ctx.fault_fired
        if fired:
            rec["faults"].append(fired)
        tol = 0.0
        if opname in ("sum", "mean") and sc["vdtype"] == "float64":
            tol = 0.0  # small integers: every partial sum is exact
        if base[0] == "raise":
            if got[0] == "ok":
                add("strategy_vs_baseline", "returns_vs_raises", f"raise {base[1]}: {base[2]}", compare.short(got[1]), exc=base[1])
        elif got[0] == "raise":
            if not fired:
                add("strategy_vs_baseline", "raises_vs_returns", compare.short(base[1]), f"{got[1]}: {got[2]}", exc=got[1])
        elif base[0] == "ok" and got[0] == "ok":
            d = compare.diff(base[1], got[1], tol=tol)
            if d is not None:
                add("strategy_vs_baseline" if not fired else "fault_relaxed", "label_diff" if d.startswith(("labels", "index", "length", "columns", "container")) else "value_diff", compare.short(base[1]), d)
        results.append((base[0], got[0], repr(got[1])[:2000] if got[0] == "ok" else got[1:]))
        for c in (ctx,):
            rec["ticks"] += c.ticks
            rec["n_pools"] += c.n_pools
            rec["interleavings"].extend(c.interleavings())
            events.append(c.event_digest())
            max_tasks = max(max_tasks, c.max_tasks)
            for k_, v_ in c.stats.items():
                if v_:
                    probes.add(k_)
            if c.stats.get("completion_order_not_fifo"):
                not_fifo = True
    rec["probes"] = sorted(probes)
    rec["nontrivial"] = bool(n >= 1_000_000 and max_tasks >= 2 and not_fifo)
    rec["digest"] = gen.digest((cls, sc))
    rec["scenario"] = sc
    rec["events"] = hashlib.blake2b(repr(events).encode(), digest_size=8).hexdigest()
    rec["result"] = hashlib.blake2b(repr(results).encode(), digest_size=8).hexdigest()
    if cfg.get("want_sample"):
        rec["sample"] = {"real_scale": sc, "fault": fault, "outcomes": [(r[0], r[1]) for r in results]}
    return rec
