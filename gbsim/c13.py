"""C13 -- a GroupBy object can be reused: results are history-independent.

System under simulation: one GroupBy driven by a simulated client through a drawn
history of operations (all strategy seams active, so every key representation --
contiguous, chunked with per-chunk dictionaries, chunked after unification, sorted
prefix + chunks, fully monotonic, arrow-chunked -- is reachable at n <= 60).

Model: a freshly constructed GroupBy with the same keys and configuration, used for
that one step only.  After every step outcome(reused) == outcome(fresh); a failing
call must fail on both.  Cross-invariants on the reused object after every step:
ngroups, the label values, and the label reached by every row through the current
codes (and pointer tables, if present) are what they were after construction.

Fault configuration (separate runs): one injected worker failure inside one step;
that step may raise; every later step must still equal the fresh object's outcome.
"""

from __future__ import annotations

import hashlib

import numpy as np

from . import compare, executor, gen, ops
from .choices import Choices

PROP = "C13"
FAULT_EVERY = 3  # every 3rd run is the fault configuration (pool-level and statement-level faults)
BATCH = 40
SHRINK_EVALS = 600
JOB_TIMEOUT_S = 1800
VD_QUICK = ["float64", "int64", "bool", "datetime64[ns]"]
VD_THOROUGH = VD_QUICK + ["float32", "timedelta64[ns]"]
N_SHARDS = 4
# history matters on chunked keys: kinds that can take the chunk-wise route dominate
KEY_KINDS = ["int", "float_nan", "datetime_nat", "str_u", "int_neg"] * 3 + ["str_object", "categorical", "bool", "str_series"]

CACHED = ["ikey_count", "key_count", "_labels_argsort", "_group_sort_indexer", "groups", "has_null_keys", "_group_key_lengths", "_chunk_offsets", "_group_first_sort_key"]

RULE = (
    "one run = one value dtype class + a logical dataset (as in C03, single key mostly) + a configuration (strategy knobs and pyarrow chunk layout "
    "that decide the key representation; sort on/off) + a history of 2-8 steps (thorough: up to 14) drawn from every operation family with fresh "
    "masks/columns per step, plus copy-constructor steps (continue on GroupBy(gb)), class-form calls (GroupBy.op(raw_keys, ...)) and failing calls "
    "(values one row short/long, boolean mask of wrong length, user function that raises); every 5th run injects one worker failure into one step. "
    "Non-trivial: the key was chunked at construction and a layout-changing step (one that unifies the chunked key or fills a cache the later step "
    "reads) is followed by at least one more step. Distinct: blake2b of (dataset, layout, strategy, history)."
)
ASSUMPTIONS = [
    "the model is a fresh GroupBy running the same code: a defect that does not depend on history cancels out (by design: that is C03/C01 material)",
    "cross-invariants read private attributes through getattr with defaults; if they disappear the invariant is skipped and reported as a probe",
    "injected failures: what the pool can produce, plus a MemoryError / Ctrl-C before a drawn admissible Python line of the library (line-granular; never inside a kernel or inside pandas / NumPy; DESIGN 9.4)",
    "task bodies are atomic in the task-atomic pool model and pre-empted only at Python line events of groupby_lib frames in the pre-emptive model (one fault-free run in three); compiled kernels and pandas / NumPy calls are never split",
]
EXPECTED_PROBES = [
    "several_live_objects", "state_chunked+pointers", "state_chunked-unified", "state_contiguous-after-unify", "step_after_layout_change", "copy_ctor", "class_form",
    "failing_call", "transition_unify_keep_chunked", "transition_unify_full",
    "stmt_fault_armed", "preemptive_pools", "tasks_interleaved_inside_bodies",
]


def classes(tier):
    vds = VD_QUICK if tier == "quick" else VD_THOROUGH
    return [[v, s] for v in vds for s in range(N_SHARDS)]


def n_runs(tier):
    return 4_000 if tier == "quick" else 150_000


def _outcome(fn):
    try:
        return ("ok", compare.canon(fn()))
    except NotImplementedError as e:
        return ("refused", "NotImplementedError", compare.msg(e, 120))
    except BaseException as e:  # noqa: BLE001
        if isinstance(e, (KeyboardInterrupt, SystemExit, executor.ProtocolError)) and not isinstance(e, executor.InjectedInterrupt):
            raise
        return ("raise", type(e).__name__, compare.msg(e, 160))


def _traced(tracer, fn):
    if tracer is None:
        return fn()
    with tracer:
        return fn()


def _layout_of(gb):
    try:
        import pyarrow as pa

        ik = getattr(gb, "_group_ikey", None)
        ptr = getattr(gb, "_group_key_pointers", None)
        if isinstance(ik, pa.ChunkedArray):
            return "chunked+pointers" if ptr is not None else "chunked-unified"
        return "contiguous"
    except Exception:
        return "?"


def _cache_mask(gb):
    d = getattr(gb, "__dict__", {})
    return sum(1 << i for i, name in enumerate(CACHED) if name in d)


def _row_labels(gb):
    """Label reached by every row through the current codes (and pointer tables)."""
    import pyarrow as pa

    ik = getattr(gb, "_group_ikey", None)
    ptr = getattr(gb, "_group_key_pointers", None)
    ri = getattr(gb, "_result_index", None)
    if ik is None or ri is None:
        return None
    if isinstance(ik, pa.ChunkedArray):
        parts = []
        for j, ch in enumerate(ik.chunks):
            codes = np.asarray(ch.to_numpy(zero_copy_only=False)).astype(np.int64)
            if ptr is not None:
                p = np.asarray(ptr[j])
                out = np.full(len(codes), -1, dtype=np.int64)
                ok = codes >= 0
                out[ok] = p[codes[ok]]
                codes = out
            parts.append(codes)
        codes = np.concatenate(parts) if parts else np.array([], dtype=np.int64)
    else:
        codes = np.asarray(ik).astype(np.int64)
    labels = compare.canon(ri)["index"]["labels"]
    return [labels[c] if c >= 0 else None for c in codes.tolist()], sorted(labels, key=repr)


LAYOUT_CHANGERS = ["groups", "median", "quantile", "apply", "head", "nth", "cumsum", "rolling_sum", "shift", "ema", "key_count"]


def gen_step(s: Choices, ds, tier, early=False):
    kind = s.weighted([(12, "op"), (1, "copy_ctor"), (1, "class_form"), (2, "failing_call")])
    if kind in ("op", "class_form"):
        fam = s.weighted([(4, "basic"), (2, "composite"), (3, "rowwise"), (3, "select")])
        op = ops.gen_op(s, fam, ds)
        if early and kind == "op" and s.chance(1, 2):
            # histories matter after a step that re-organises the key or fills a cache:
            # make such a step likely at the start
            want = LAYOUT_CHANGERS[s.draw(len(LAYOUT_CHANGERS))]
            fam2 = next(f for f, names in ops.FAMILIES.items() if want in names)
            for _ in range(1):
                op = ops.gen_op(_Forced(s, ops.FAMILIES[fam2].index(want)), fam2, ds)
        step = {"kind": kind, "op": op, "target": s.draw(4)}
        if kind == "class_form":
            # sometimes on a second key array of the same length (reversed rows): anything the
            # class form remembers between calls must not leak from one key array to another
            step["alt"] = s.chance(1, 4)
            # the key buffer belongs to the caller, who may refill it between two class-form
            # calls: nothing may be remembered about its earlier content
            step["refill_keys_first"] = s.chance(1, 3)
        return step
    if kind == "copy_ctor":
        return {"kind": "copy_ctor", "target": s.draw(4)}
    fk = s.weighted([(2, "short_values"), (2, "long_values"), (2, "bad_mask_len"), (2, "user_func_raises"), (2, "bad_q")])
    if fk == "user_func_raises":
        op = {"op": "apply", "cols": [0], "transform": False, "mask": {"kind": "none"}, "func": "raises"}
    elif fk == "bad_q":
        # an argument found invalid late: NumPy rejects q > 1 inside the per-group worker function
        op = {"op": "quantile", "cols": [0], "transform": False, "mask": {"kind": "none"}, "q": [[0.25, 1.5], [1.5], [0.5, 0.75, -0.1]][s.draw(3)]}
    else:
        opn = s.weighted([(2, "sum"), (1, "min"), (1, "cumsum"), (1, "count")])
        op = {"op": opn, "cols": [0], "transform": bool(s.draw(2)) if opn != "cumsum" else False, "observed_only": True, "mask": {"kind": "none"}, "skip_na": True}
    return {"kind": "failing_call", "fail": fk, "op": op}


class _Forced:
    """A Choices view whose first draw is fixed (used to pick a given operation name)."""

    def __init__(self, s, first):
        self._s, self._first, self._used = s, first, False

    def draw(self, n):
        if not self._used:
            self._used = True
            return self._first % max(n, 1)
        return self._s.draw(n)

    def __getattr__(self, name):
        s = self._s
        if name in ("chance", "pick", "weighted", "small"):
            return lambda *a, **k: getattr(Choices, name)(self, *a, **k)
        return getattr(s, name)


def _alt_mask(m):
    """A second content for a pool mask, of the same kind and shape (None: not refillable)."""
    if m["kind"] == "bool":
        bits = m["bits"]
        if not bits:
            return None
        alt = [not bits[-1]] + list(bits[:-1])  # rotated by one row, first bit flipped
        return dict(m, bits=alt)
    if m["kind"] == "positions":
        return dict(m, pos=list(reversed(m["pos"])))
    return None


def _with_index_name(values, name, ds):
    """The same value columns as pandas Series whose (equal) index carries `name`."""
    import pandas as pd

    def one(v):
        if isinstance(v, pd.Series):
            return pd.Series(v.to_numpy(), index=v.index.rename(name), name=v.name, copy=False)
        if isinstance(v, np.ndarray) and v.ndim == 1:
            ix = gen._index(ds)
            ix = pd.RangeIndex(len(v), name=name) if ix is None else ix.rename(name)
            return pd.Series(v, index=ix, copy=False)
        return v

    if isinstance(values, dict):
        return {k: one(v) for k, v in values.items()}
    if isinstance(values, list):
        return [one(v) for v in values]
    return one(values)


def _refill_values(old, new) -> bool:
    import pandas as pd

    olds = list(old.values()) if isinstance(old, dict) else [old]
    news = list(new.values()) if isinstance(new, dict) else [new]
    if len(olds) != len(news):
        return False
    for o, nw in zip(olds, news):
        if not ((isinstance(o, np.ndarray) and o.flags.writeable) or (isinstance(o, pd.Series) and isinstance(o.dtype, np.dtype))):
            return False
    for o, nw in zip(olds, news):
        if isinstance(o, np.ndarray):
            o[:] = np.asarray(nw)
        else:
            o.iloc[:] = np.asarray(nw)
    return True


def _refill_in_place(keys) -> bool:
    """The client reverses the content of its own key buffer(s), keeping the objects."""
    import pandas as pd

    done = False
    for k in keys if isinstance(keys, list) else [keys]:
        try:
            if isinstance(k, np.ndarray) and k.flags.writeable:
                k[:] = k[::-1].copy()
                done = True
            elif isinstance(k, pd.Series) and isinstance(k.dtype, np.dtype):
                k.iloc[:] = k.to_numpy()[::-1].copy()
                done = True
        except Exception:
            pass
    return done


def _step_call(gb, step, ds, lay, class_keys=None, client=None, reuse_facades=False, raw_keys=None):
    """Execute one step on `gb`; returns the value (or raises).  `client` caches the
    client's own objects: a real caller passes the *same* mask / value objects to
    several calls, and anything memoised on their identity must survive that."""
    op = step["op"]
    dso = ops.sanitize(ds, op)
    client = {} if client is None else client
    vver = op.get("values_version", 0)
    if vver:  # the second content of the client's value buffers: rows reversed
        dso = dict(dso, cols=[dict(c, idx=list(reversed(c["idx"]))) for c in dso["cols"]])
    vkey = ("v", tuple(op["cols"]), dso is ds or bool(vver) and ops.sanitize(ds, op) is ds)
    if vkey not in client:
        client[vkey] = gen.build_values(dso, lay, op["cols"])
    elif client.get(("vver",) + vkey) != vver:
        # the client refills its own value buffers in place (same objects, new content)
        new = gen.build_values(dso, lay, op["cols"])
        if not _refill_values(client[vkey], new):
            client[vkey] = new
        else:
            client["refilled_values"] = True
    client[("vver",) + vkey] = vver
    values = client[vkey]
    if op.get("index_name"):
        values = _with_index_name(values, op["index_name"], ds)
    if "mask_ref" in op:
        import pandas as pd

        mkey, vkey_ = ("m", op["mask_ref"]), ("mver", op["mask_ref"])
        if mkey not in client:
            client[mkey] = gen.build_mask(dso, ops.op_mask(op))
        elif client.get(vkey_) != op.get("mask_version", 0):
            # the client refills its own mask buffer in place (same object, new content)
            new = gen.build_mask(dso, ops.op_mask(op))
            obj = client[mkey]
            if isinstance(obj, np.ndarray) and isinstance(new, np.ndarray) and obj.shape == new.shape:
                obj[:] = new
                client["refilled_mask"] = True
            elif isinstance(obj, pd.Series) and len(obj) == len(new):
                obj.iloc[:] = np.asarray(new)
                client["refilled_mask"] = True
            else:
                client[mkey] = new
        client[vkey_] = op.get("mask_version", 0)
        mask = client[mkey]
    else:
        mask = gen.build_mask(dso, ops.op_mask(op))
    if step["kind"] == "failing_call":
        fk = step["fail"]
        n = ds["n"]
        if fk == "short_values":
            values = gen.col_array(dso["cols"][op["cols"][0]])[: max(n - 1, 0)]
        elif fk == "long_values":
            a = gen.col_array(dso["cols"][op["cols"][0]])
            values = np.concatenate([a, a[:1]]) if n else a
        elif fk == "bad_mask_len":
            mask = np.ones(n + 1, dtype=bool)
    # the client keeps its facade objects (gb = df.groupby_fast(...)) and reuses them on the
    # reused GroupBy; the fresh model gets a fresh facade
    wrappers = client.setdefault("facades", []) if reuse_facades else None
    if raw_keys is None and class_keys is None and op["op"] in ("crosstab", "value_counts"):
        raw_keys = gen.build_keys(ds, lay)  # module-level functions take the keys themselves
    return ops.call_op(gb, op, values, mask, dso, class_form_keys=class_keys, wrappers=wrappers, wrapper_tag=(vver, op.get("index_name")), raw_keys=raw_keys)


def run_one(scen: Choices, sched: Choices, cls, cfg):
    return execute(gen_scenario(scen, cls, cfg), sched, cls, cfg)


def gen_scenario(scen: Choices, cls, cfg):
    """The complete, JSON-able scenario of one run (everything but the schedule)."""
    vdtype, _shard = cls
    tier = cfg.get("tier", "quick")
    ds = gen.gen_dataset(scen, vdtype, tier, max_n=60, allow_multi=True, key_kinds=KEY_KINDS, min_n=5)
    sort = not scen.chance(1, 5)
    lay = gen.gen_layout(scen, ds)
    st = gen.gen_strategy(scen, ds)
    # bias towards chunked representations: that is where history matters
    if (st["threshold"] is None or st["threshold"] > ds["n"]) and scen.chance(3, 4):
        st["threshold"] = [1, 2, 4, 8][scen.draw(4)]
    max_steps = 8 if tier == "quick" else 14
    nsteps = 2 + scen.small(max_steps - 2)
    mask_pool = [gen.gen_mask(scen, ds, ("bool", "slice", "positions", "bool")) for _ in range(3)]
    # every pool mask has a second content of the same shape: the client may refill the
    # *same object* in place between two calls (nothing may be remembered about its old content)
    mask_pool_alt = [_alt_mask(m) for m in mask_pool]
    mask_version = [0, 0, 0]
    values_version = [0]

    def use_pool_mask(op_, j):
        if mask_pool_alt[j] is not None and scen.chance(1, 3):
            mask_version[j] ^= 1
        v = mask_version[j]
        op_["mask"] = mask_pool_alt[j] if v else mask_pool[j]
        op_["mask_ref"], op_["mask_version"] = j, v
    steps = []
    # one third of the histories start with a "sandwich": a call, a step that re-organises
    # the key or fills a cache, and the same call again (same operation or at least the same
    # mask object) -- the pattern history independence is about
    if scen.weighted([(2, "free"), (1, "sandwich")]) == "sandwich":
        import copy

        b_ = scen.begin()
        fam1 = scen.weighted([(5, "basic"), (2, "composite"), (3, "rowwise")])
        first = {"kind": "op", "op": ops.gen_op(scen, fam1, ds)}
        if "ibg" in first["op"] and scen.chance(1, 2):
            first["op"]["ibg"] = True  # the group-sorted output layout (goes through more cached state)
        first["op"]["index_name"] = scen.weighted([(3, None), (1, "row")])
        if "mask" in first["op"] and scen.chance(3, 4):
            j = scen.draw(len(mask_pool))
            allowed = ("bool",) if first["op"]["op"] in ("median", "quantile", "apply") else ("bool", "slice", "positions")
            if mask_pool[j]["kind"] in allowed:
                use_pool_mask(first["op"], j)
        scen.end(b_)
        b_ = scen.begin()
        want = LAYOUT_CHANGERS[scen.draw(len(LAYOUT_CHANGERS))]
        fam2 = next(f for f, names in ops.FAMILIES.items() if want in names)
        middle = {"kind": "op", "op": ops.gen_op(_Forced(scen, ops.FAMILIES[fam2].index(want)), fam2, ds)}
        scen.end(b_)
        b_ = scen.begin()
        if scen.draw(2) == 0:
            last = copy.deepcopy(first)
            if "mask_ref" in last["op"]:
                use_pool_mask(last["op"], last["op"]["mask_ref"])
            if scen.chance(1, 2):
                # the same call on the same data, only the name of the values' index differs
                last["op"]["index_name"] = "obs" if first["op"]["index_name"] else "row"
        else:
            last = {"kind": "op", "op": ops.gen_op(scen, "basic", ds)}
            if "mask_ref" in first["op"] and "mask" in last["op"]:
                use_pool_mask(last["op"], first["op"]["mask_ref"])
        scen.end(b_)
        steps = [first, middle, last]
    while len(steps) < max_steps:
        b_ = scen.begin()
        if not scen.forced(1 if len(steps) < nsteps else 0):  # "one more step?"
            break
        step = gen_step(scen, ds, tier, early=len(steps) < 2)
        # positional masks are where the key representation matters most: make them frequent
        op0 = step.get("op")
        if op0 is not None and step["kind"] == "op" and op0["op"] in ops.BASIC and "mask" in op0 and scen.chance(1, 5):
            op0["mask"] = gen.gen_mask(scen, ds, ("positions",))
        # the client owns a small pool of mask objects and reuses them across calls
        op_ = step.get("op")
        if op_ is not None and "mask" in op_ and step["kind"] != "failing_call" and scen.chance(1, 2):
            j = scen.draw(len(mask_pool))
            allowed = ("none", "bool") if op_["op"] not in ops.BASIC + ["var", "std", "agg"] else ("none", "bool", "slice", "positions")
            if mask_pool[j]["kind"] in allowed:
                use_pool_mask(op_, j)
        if op_ is not None and step["kind"] in ("op", "class_form"):
            if scen.chance(1, 6):
                values_version[0] ^= 1
            op_["values_version"] = values_version[0]
            # the same data under another index *name* (labels equal): metadata of the inputs
            # must show in the result of this call, not that of an earlier one
            op_["index_name"] = scen.weighted([(4, None), (1, "row"), (1, "obs")])
        steps.append(step)
        scen.end(b_)
        if op_ is not None and step["kind"] == "op" and op_.get("via") == "api" and len(steps) < max_steps and scen.chance(1, 2):
            # the client's facade object (for rolling: the `gb.rolling(w)` object) is used again at
            # once with the call's options back at their defaults: nothing of the earlier call's
            # mask / output layout may stick to it
            import copy as _copy

            b_ = scen.begin()
            again = _copy.deepcopy(step)
            ao = again["op"]
            if ao["op"].startswith("rolling_"):
                ao["op"] = "rolling_" + ["sum", "mean", "min", "max"][scen.draw(4)]
            if "mask" in ao and scen.chance(2, 3):
                ao["mask"] = {"kind": "none"}
                ao.pop("mask_ref", None)
                ao.pop("mask_version", None)
            if ao.get("ibg"):
                ao["ibg"] = False
            if "api_select" in ao and scen.chance(2, 3):
                # ... and through another column selection of the same (kept) frame facade
                ao["api_select"] = [3, 4, 1, 0, 2][scen.draw(5)]
            steps.append(again)
            scen.end(b_)
        if step["kind"] == "class_form" and len(steps) < max_steps and scen.chance(1, 2):
            # class-form calls come in bursts on one key object
            b_ = scen.begin()
            fam = scen.weighted([(4, "basic"), (2, "composite"), (3, "rowwise"), (3, "select")])
            steps.append({"kind": "class_form", "op": ops.gen_op(scen, fam, ds), "target": 0, "alt": step.get("alt", False), "refill_keys_first": scen.chance(1, 2)})
            scen.end(b_)
    if not steps:
        steps = [gen_step(Choices(replay=[]), ds, tier)]
    nsteps = len(steps)
    fault = None
    fault_step = None
    if cfg.get("fault_mode"):
        fault = gen.gen_fault(scen, stmt=True)
        if fault["kind"] in gen.STMT_KINDS:
            # a crash / interrupt between two statements matters where the object re-organises
            # itself: prefer the steps that do, and never the last step (somebody has to look)
            cand = [i for i, s_ in enumerate(steps[:-1]) if s_.get("op", {}).get("op") in ops.UNIFYING and s_["kind"] == "op"]
            if not cand or scen.chance(1, 3):
                # (class-form calls too: whatever the class form remembers between calls)
                cand = [i for i, s_ in enumerate(steps[:-1]) if s_["kind"] in ("op", "class_form")] or list(range(nsteps))
        else:
            # a fault with nothing in flight tests nothing: prefer steps that go through the pool
            cand = [i for i, s_ in enumerate(steps) if s_.get("op", {}).get("op") in ops.BASIC + ops.COMPOSITE] or list(range(nsteps))
        fault_step = cand[scen.draw(len(cand))]
        fault["k"] = min(fault["k"], 3)

    # what a client does after a call failed: the same call again, or a close relative of it
    # (anything the failed call left behind on the object shows there first)
    failing = [i for i, s_ in enumerate(steps) if s_["kind"] == "failing_call"]
    if fault_step is not None and steps[fault_step]["kind"] in ("op", "failing_call"):
        failing.append(fault_step)
    inserted = 0
    fault_step0 = fault_step
    for i in sorted(set(failing)):
        if len(steps) >= max_steps + 2 or not scen.chance(1, 2):
            continue
        rel = _relative_step(scen, steps[i + inserted], ds)
        steps.insert(i + inserted + 1, rel)
        if fault_step is not None and i < fault_step0:
            fault_step += 1
        inserted += 1
    return {"ds": ds, "sort": sort, "lay": lay, "st": st, "steps": steps, "fault": fault, "fault_step": fault_step}


_FAMILY_OF_APPLY = ("apply", "median", "quantile")


def _relative_step(scen, step, ds):
    """A step likely to share internal machinery with `step`: the same call again (a retry, with
    valid arguments), or another member of its family."""
    import copy as _copy

    op = _copy.deepcopy(step["op"])
    name = op["op"]
    for k_ in ("mask_ref", "mask_version"):
        op.pop(k_, None)
    if name in _FAMILY_OF_APPLY:
        which = scen.weighted([(3, "apply_vector"), (1, "apply_spread"), (1, "quantile"), (1, "median")])
        mask = op.get("mask", {"kind": "none"})
        if which == "apply_vector":
            op = {"op": "apply", "cols": op["cols"], "transform": False, "mask": mask, "func": "first_two"}
        elif which == "apply_spread":
            op = {"op": "apply", "cols": op["cols"], "transform": bool(scen.draw(2)), "mask": mask, "func": "spread"}
        elif which == "quantile":
            op = {"op": "quantile", "cols": op["cols"], "transform": False, "mask": mask, "q": [[0.5], [0.25, 0.75], [0.0, 0.5, 1.0]][scen.draw(3)]}
        else:
            op = {"op": "median", "cols": op["cols"], "transform": bool(scen.draw(2)), "mask": mask}
    elif name.startswith("rolling_"):
        op["op"] = "rolling_" + ["sum", "mean", "min", "max"][scen.draw(4)]
        op["ibg"] = bool(scen.draw(2))
    elif name in ("ema", "ema_timed"):
        op["ibg"] = bool(scen.draw(2))
    elif name in ("cumsum", "cummin", "cummax"):
        op["op"] = ["cumsum", "cummin", "cummax"][scen.draw(3)]
    elif name in ("head", "tail", "nth") and "n" in op:
        op["op"] = ["head", "tail"][scen.draw(2)]
        op["n"] = [1, 2, 1000][scen.draw(3)]
    elif "transform" in op and name in ops.BASIC:
        op["transform"] = bool(scen.draw(2))
    return {"kind": "op", "op": op, "target": step.get("target", 0)}


def execute(sc, sched: Choices, cls, cfg):
    from groupby_lib.groupby.core import GroupBy

    vdtype, _shard = cls
    ds, sort, lay, st, steps, fault, fault_step = sc["ds"], sc["sort"], sc["lay"], sc["st"], sc["steps"], sc["fault"], sc["fault_step"]
    rec = {"violations": [], "probes": [], "faults": [], "interleavings": [], "ticks": 0, "nontrivial": False, "n_pools": 0, "scenario": sc}
    probes = set()
    null_keys = any(c < 0 for kc in ds["key_codes"] for c in kc)
    key_kind = ds["key_kinds"][0] if len(ds["key_kinds"]) == 1 else "multi"
    states, transitions = set(), set()
    events, results = [], []
    preempt_sites = set()
    gen.apply_strategy(st)

    def new_ctx(with_fault=None):
        return executor.SimContext(sched=sched, workers=st["workers"], cpu_count=st["cpu"], fault=with_fault, monitor=False, preempt=st.get("preempt", False))

    def account(ctx):
        rec["ticks"] += ctx.ticks
        rec["n_pools"] += ctx.n_pools
        rec["interleavings"].extend(ctx.interleavings())
        events.append(ctx.event_digest())
        rec["n_preemptions"] = rec.get("n_preemptions", 0) + ctx.stats.get("preemptions", 0)
        preempt_sites.update(ctx.preempt_sites)
        for k_, v_ in ctx.stats.items():
            if v_:
                probes.add(k_)

    client = {}  # the client's own mask / value objects, reused across the history

    def construct():
        keys = gen.build_keys(ds, lay)
        return GroupBy(keys, sort=sort, factorize_large_inputs_in_chunks=st["chunk_flag"])

    ctx = new_ctx()
    with executor.use_context(ctx):
        try:
            reused = construct()
            ctor_err = None
        except Exception as e:  # noqa: BLE001
            reused, ctor_err = None, e
    account(ctx)
    if reused is None:
        # construction fails identically for reused and fresh: nothing history-dependent to check
        rec["probes"] = ["constructor_raises"]
        rec["digest"] = gen.digest((cls[0], sc))
        rec["events"] = rec["result"] = rec["digest"]
        if cfg.get("want_sample"):
            rec["sample"] = {"note": f"constructor raises {type(ctor_err).__name__}", "dataset": {k: ds[k] for k in ("key_kinds", "g", "n", "placement")}}
        return rec
    layout0 = _layout_of(reused)
    chunked_at_construction = layout0.startswith("chunked")
    try:
        inv0 = _row_labels(reused)
    except Exception:
        inv0 = None
        probes.add("invariant_skipped")
    ngroups0 = getattr(reused, "ngroups", None)
    history_prefix = []
    layout_changed_at = None
    fault_happened = False
    fault_where = None
    prev_state = (layout0, _cache_mask(reused))
    states.add(prev_state)
    probes.add(f"state_{layout0}")

    # the original and every copy made so far stay alive and in use: a copy that shares
    # mutable state with its original shows when *either* is used afterwards
    objs = [reused]
    obj_prev_state = {0: prev_state}
    for si, step in enumerate(steps):
        kind = step["kind"]
        ti = step.get("target", 0) % len(objs)
        reused = objs[ti]
        prev_state = obj_prev_state[ti]
        if kind == "copy_ctor":
            probes.add("copy_ctor")
            ctx = new_ctx()
            with executor.use_context(ctx):
                try:
                    objs.append(GroupBy(reused))
                    obj_prev_state[len(objs) - 1] = prev_state
                    err = None
                except Exception as e:  # noqa: BLE001
                    err = e
            account(ctx)
            history_prefix.append("copy_ctor")
            if err is not None:
                rec["violations"].append(
                    {
                        "site": {"property": PROP, "check": "copy_ctor", "op": "copy_ctor", "outcome": "raises_vs_returns", "exc": type(err).__name__},
                        "features": {"key_kind": key_kind, "layout0": layout0, "history": list(history_prefix)},
                        "expected": "GroupBy(gb) equivalent to gb",
                        "actual": f"{type(err).__name__}: {err}",
                    }
                )
                break
            continue
        op = step["op"]
        if kind == "class_form" and "via" in op:
            # the class form has no facade: both sides call GroupBy.op(keys, ...) directly
            op = {k_: v_ for k_, v_ in op.items() if k_ != "via"}
            step = dict(step, op=op)
        opname = op["op"] + ("_transform" if op.get("transform") else "")
        if kind == "failing_call":
            probes.add("failing_call")
        if kind == "class_form":
            probes.add("class_form")
        elif op.get("via") == "api":
            probes.add("via_facade")
        mask = ops.op_mask(op)
        # (with the second content of the value buffers the selected rows hold other values:
        #  bound over all rows then -- looser, still far below one data quantum)
        tol = ops.tolerance(op, ops.sanitize(ds, op), list(range(ds["n"])) if op.get("values_version") else gen.mask_rows(ds, mask))
        unordered = op["op"] in ops.UNORDERED
        # ---- fresh model ----
        this_fault = fault if (fault is not None and fault_step == si) else None
        dry = None  # statement-level fault: the model call doubles as the traced dry run
        if this_fault is not None and this_fault["kind"] in gen.STMT_KINDS:
            dry = executor.LineTracer(None, mode=this_fault.get("mode", 0))
        ctxm = new_ctx()
        with executor.use_context(ctxm):
            if kind == "class_form":
                ck = ("keys", bool(step.get("alt")))
                if ck not in client:
                    dsk = dict(ds, key_codes=[list(reversed(kc)) for kc in ds["key_codes"]]) if step.get("alt") else ds
                    client[ck] = gen.build_keys(dsk, lay)
                elif step.get("refill_keys_first") and _refill_in_place(client[ck]):
                    probes.add("client_refilled_key_buffer")
                class_keys = client[ck]
                model = _outcome(lambda: _traced(dry, lambda: _step_call(GroupBy(class_keys), dict(step, kind="op"), ds, lay, client=client, raw_keys=class_keys)))
            else:
                # (the construction of the fresh object is not part of the reused object's call)
                model = _outcome(lambda: (lambda fresh_: _traced(dry, lambda: _step_call(fresh_, step, ds, lay, client=client)))(construct()))
        account(ctxm)
        # ---- reused object ----
        if dry is not None:
            this_fault = gen.arm_stmt_fault(this_fault, dry.count)
            probes.add("stmt_fault_armed")
        ctxr = new_ctx(this_fault)
        layout_before = _layout_of(reused)
        with executor.use_context(ctxr):
            if kind == "class_form":
                got = _outcome(lambda: _step_call(None, step, ds, lay, class_keys=class_keys, client=client))
            else:
                got = _outcome(lambda: _step_call(reused, step, ds, lay, client=client, reuse_facades=True))
        account(ctxr)
        fired = ctxr.fault_fired
        if fired:
            rec["faults"].append(fired)
            fault_happened = True
            if ctxr.fault_where:
                fault_where = ctxr.fault_where
                rec.setdefault("fault_sites", []).append(fault_where)
        results.append((model, got))
        layout_after = _layout_of(reused)
        state = (layout_after if not (layout_before.startswith("chunked") and layout_after == "contiguous") else "contiguous-after-unify", _cache_mask(reused))
        if layout0.startswith("chunked") and layout_after == "contiguous":
            probes.add("state_contiguous-after-unify")
        probes.add(f"state_{layout_after}")
        states.add(state)
        transitions.add((prev_state, op["op"], state))
        if layout_before == "chunked+pointers" and layout_after == "chunked-unified":
            probes.add("transition_unify_keep_chunked")
        if layout_before.startswith("chunked") and layout_after == "contiguous":
            probes.add("transition_unify_full")
        changed = state != prev_state
        if layout_changed_at is not None and si > layout_changed_at:
            probes.add("step_after_layout_change")
            if chunked_at_construction:
                rec["nontrivial"] = True
        if changed and layout_changed_at is None and (layout_after != layout_before or state[1] != prev_state[1]):
            layout_changed_at = si
        if client.get("refilled_mask"):
            probes.add("client_refilled_mask_buffer")
        if client.get("refilled_values"):
            probes.add("client_refilled_value_buffers")
        prev_state = state
        obj_prev_state[ti] = state
        if len(objs) > 1:
            probes.add("several_live_objects")

        site = {"property": PROP, "op": opname, "step_kind": kind}
        features = {
            "key_kind": key_kind,
            "null_keys": "present" if null_keys else "none",
            "layout0": layout0,
            "layout_before": layout_before,
            "mask": mask["kind"],
            "vdtype": vdtype,
            "history": list(history_prefix),
            "fault": fired or ("earlier" if fault_happened else "none"),
        }
        if fault_where:
            features["fault_where"] = fault_where

        def add(check, outcome, expected, actual, **kw):
            rec["violations"].append({"site": dict(site, check=check, outcome=outcome, **kw), "features": dict(features), "expected": expected, "actual": actual})

        if model[0] == "refused" or got[0] == "refused":
            probes.add("refused")
        elif model[0] == "raise":
            if got[0] == "ok":
                add("reused_vs_fresh", "returns_vs_raises", f"raise {model[1]}: {model[2]}", compare.short(got[1]), exc=model[1])
        elif got[0] == "raise":
            if not fired:
                add("reused_vs_fresh", "raises_vs_returns", compare.short(model[1]), f"{got[1]}: {got[2]}", exc=got[1])
        else:
            d = compare.diff(model[1], got[1], tol=tol, unordered=unordered)
            if d is not None:
                add("reused_vs_fresh", "label_diff" if d.startswith(("labels", "index", "length", "columns", "container")) else "value_diff", compare.short(model[1]), d)
        # ---- cross-invariants on the reused object ----
        if inv0 is not None and kind != "class_form":
            try:
                inv = _row_labels(reused)
            except Exception:
                inv = None
                probes.add("invariant_skipped")
            if inv is not None:
                if inv[1] != inv0[1] or getattr(reused, "ngroups", None) != ngroups0:
                    add("invariant_labels", "label_diff", compare.short(inv0[1]), compare.short(inv[1]))
                elif inv[0] != inv0[0]:
                    bad = [i for i, (a, b) in enumerate(zip(inv0[0], inv[0])) if a != b][:5]
                    add("invariant_row_labels", "value_diff", f"rows {bad}: {[inv0[0][i] for i in bad]}", f"{[inv[0][i] for i in bad]}")
        if op["op"] in ops.UNIFYING or kind == "failing_call":
            history_prefix.append(op["op"] if kind != "failing_call" else "failing_call")

    rec["probes"] = sorted(probes)
    rec["preempt_sites"] = sorted(preempt_sites)
    rec["states"] = [repr(s_) for s_ in states]
    rec["transitions"] = [repr(t_) for t_ in transitions]
    rec["digest"] = gen.digest((cls[0], sc))
    rec["events"] = hashlib.blake2b(repr(events).encode(), digest_size=8).hexdigest()
    rec["result"] = hashlib.blake2b(repr(results).encode(), digest_size=8).hexdigest()
    if cfg.get("want_sample"):
        rec["sample"] = {
            "dataset": {k: ds[k] for k in ("key_kinds", "g", "n", "placement", "key_codes")},
            "sort": sort,
            "layout": lay,
            "strategy": st,
            "key_representation_at_construction": layout0,
            "history": [{"kind": s_["kind"], **({"op": s_["op"]["op"], "transform": s_["op"].get("transform"), "mask": ops.op_mask(s_["op"])["kind"]} if "op" in s_ else {}), **({"fail": s_["fail"]} if "fail" in s_ else {})} for s_ in steps],
            "fault": fault,
            "fault_step": fault_step,
            "states": sorted(rec["states"]),
            "outcomes": [(m[0], g[0]) for m, g in results],
        }
    return rec
