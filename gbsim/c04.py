"""C04 -- block-wise reduction equals single-pass reduction (kernel contract).

System under simulation: groupby_lib.groupby.numba.group_* called directly with
integer codes.  "Nodes" are the block workers of `_group_func_wrap`'s
parallel_map, the "network" is the list of per-block (accumulator, count)
partials, the "merge" is combine_chunk_results_for_factorized_key.

Oracles
  (i)   single-pass kernel == a pure-Python per-group definition (reference model)
  (ii)  block-wise (n_threads blocks, or chunked value list) == single-pass,
        under a drawn schedule of the simulated pool
  (iii) returned counts == number of accepted values (all kernels but `last`,
        whose count is only compared block-wise vs single-pass)
  fault configuration: a block-wise call with an injected worker failure either
  raises or returns the single-pass answer.
"""

from __future__ import annotations

import hashlib
import warnings

import numpy as np

from . import compare, executor
from .choices import Choices

PROP = "C04"
BATCH = 500
SHRINK_EVALS = 4000
RULE = (
    "one run = one (kernel, value dtype) class + drawn codes over {negative, 0..3} (length 0-6 in 70% of runs, up to 64), "
    "values over a 7-letter alphabet containing the dtype's null, ngroups with spare groups, mask (none/bool/slice/positions incl. "
    "unsorted, repeated, negative, out-of-range), block-wise execution (n_threads 2-8 or a pyarrow.ChunkedArray of values with drawn "
    "chunk lengths incl. empty chunks), simulated-pool worker count, schedule stream, and in every 5th run a fault plan. "
    "Non-trivial: >=2 blocks, a simulated pool with >=2 tasks ran, and at least one group is empty or all-null in some block but "
    "not in all (so the merge sees an empty partial next to a non-empty one). Distinct: by blake2b of "
    "(class, codes, value letters, ngroups, mask, execution, code dtype)."
)
ASSUMPTIONS = [
    "task bodies are atomic in the task-atomic pool model and pre-empted only at Python line events of groupby_lib frames in the pre-emptive model (one fault-free run in three); compiled kernels and pandas / NumPy calls are never split",
    "statement-level faults are line-granular (DESIGN 9.4)",
    "NUMBA_BOUNDSCHECK=1: an out-of-bounds kernel access raises instead of reading the heap",
    "int64 `sum` cells containing int64.min are compared ndarray-vs-ndarray only (container-dependent null convention, not stated by the property)",
    "sampling, not enumeration: the bounded space named by the property is hit by ~70% of the runs but not enumerated",
]
EXPECTED_PROBES = [
    "merge_saw_empty_partial", "group_absent_from_first_block", "all_null_block", "empty_block", "blocks_gt_rows",
    "completion_order_not_fifo", "consumer_interleaved_with_tasks", "stall", "workers_lt_tasks", "position_out_of_range_must_raise",
    "stmt_fault_armed", "preemptive_pools", "tasks_interleaved_inside_bodies", "retry_after_fault",
]

KERNELS = ["size", "count", "sum", "sum_squares", "mean", "min", "max", "first", "last"]
DTYPES_QUICK = ["float64", "int64", "bool", "datetime64[ns]"]
DTYPES_THOROUGH = DTYPES_QUICK + ["float32", "timedelta64[ns]", "int32", "uint8"]

MIN_INT = np.iinfo(np.int64).min


def classes(tier: str):
    dts = DTYPES_QUICK if tier == "quick" else DTYPES_THOROUGH
    out = []
    for d in dts:
        for k in KERNELS:
            if k == "sum_squares" and d[0] in "dt":
                continue  # squares of timestamps: meaningless, result is re-cast to datetime
            if k == "sum" and d.startswith("datetime"):
                continue  # a sum of absolute timestamps is meaningless
            out.append([d, k])
    return out


def n_runs(tier: str) -> int:
    return 160_000 if tier == "quick" else 2_000_000


# ---------------------------------------------------------------------------
# alphabets
# ---------------------------------------------------------------------------

_ALPHA = {
    "float64": [1.0, np.nan, 0.0, -2.0, 0.5, 3.0, 7.0],
    "float32": [1.0, np.nan, 0.0, -2.0, 0.5, 3.0, 7.0],
    "int64": [1, MIN_INT, 0, -2, 3, 7, 5],
    "int32": [1, 9, 0, -2, 3, 7, 5],
    "uint8": [1, 9, 0, 2, 3, 7, 5],
    "bool": [True, False],
    "datetime64[ns]": [1, MIN_INT, 0, 5, 1000, 1_700_000_000_000_000_000, 86_400_000_000_000],
    "timedelta64[ns]": [1, MIN_INT, 0, -5, 1000, 3_600_000_000_000, 7],
}
_ARB_FLOATS = [0.1, np.nan, 1e-3, -3.7, 2.5e5, 1 / 3, -1e-7, 123.456, 9.99e5]


def _null_of(dtype: str):
    if dtype.startswith("float"):
        return "nan"
    if dtype in ("int64",) or dtype[0] in "dt":
        return MIN_INT
    return None  # int32, uint8, bool: no null marker understood by the kernels


_ARB_FLOATS_INF = [0.1, np.nan, 1e-3, -3.7, np.inf, 1 / 3, -np.inf]


def _make_values(dtype: str, codes_idx, arb, inf_pair=None):
    alpha = (_ARB_FLOATS_INF if arb == "inf" else _ARB_FLOATS) if (arb and dtype.startswith("float")) else _ALPHA[dtype]
    raw = [alpha[i % len(alpha)] for i in codes_idx]
    if dtype[0] in "dt":
        return np.array(raw, dtype="int64").view(dtype)
    out = np.array(raw, dtype=dtype)
    if inf_pair is not None and dtype.startswith("float") and inf_pair + 1 < len(out):
        # +inf and -inf in adjacent rows of one group: the partial sum of the block holding
        # both is NaN although the block holds no null
        out[inf_pair], out[inf_pair + 1] = np.inf, -np.inf
    return out


# ---------------------------------------------------------------------------
# scenario
# ---------------------------------------------------------------------------


def gen_scenario(s: Choices, cls, cfg):
    dtype, kernel = cls
    sc = {"dtype": dtype, "kernel": kernel}
    # size
    size_class = s.weighted([(7, 0), (2, 1), (1, 2)])
    if size_class == 0:
        n = s.draw(7)
    elif size_class == 1:
        n = 7 + s.draw(6)
    else:
        n = 13 + s.draw(52)
    g = 1 + s.draw(4)
    spare = s.weighted([(6, 0), (2, 1), (1, 2)])
    sc["ngroups"] = g + spare
    code_dtype = s.weighted([(8, "int64"), (1, "int8"), (1, "int32"), (1, "uint32")])
    neg_ok = code_dtype != "uint32"
    codes = []
    vals_idx = []
    for _ in range(n):
        c = s.draw(g + 2)  # 0..g-1 groups, g => -1, g+1 => another negative code
        if c >= g:
            c = (-1 if c == g else -7) if neg_ok else 0
        codes.append(c)
        vals_idx.append(s.draw(7))
    placement = s.weighted([(5, "random"), (3, "sorted"), (1, "sorted_desc"), (2, "late_rare")])
    if placement in ("sorted", "sorted_desc") and n:
        order = sorted(range(n), key=lambda i: (codes[i] < 0, codes[i], i))
        if placement == "sorted_desc":
            order = order[::-1]
        codes = [codes[i] for i in order]
    elif placement == "late_rare" and n >= 2 and g >= 2:
        # the last group appears only in the last row
        codes = [c if c != g - 1 else 0 for c in codes]
        codes[-1] = g - 1
    sc["placement"] = placement
    sc["code_dtype"] = code_dtype
    sc["codes"] = codes
    # null pattern over values: as drawn / all null in a stretch
    arb = dtype.startswith("float") and s.chance(1, 10)
    if arb and s.chance(1, 3):
        arb = "inf"  # arbitrary floats with +inf and -inf among them
    sc["arbitrary_floats"] = arb
    nullpat = s.weighted([(6, "as_drawn"), (2, "null_prefix"), (2, "null_suffix"), (1, "all_null")])
    if _null_of(dtype) is None:
        nullpat = "as_drawn"
    if n and nullpat != "as_drawn":
        cut = s.draw(n + 1)
        if nullpat == "null_prefix":
            vals_idx = [1 if i < cut else v for i, v in enumerate(vals_idx)]
        elif nullpat == "null_suffix":
            vals_idx = [1 if i >= cut else v for i, v in enumerate(vals_idx)]
        else:
            vals_idx = [1] * n
    sc["nullpat"] = nullpat
    sc["vals_idx"] = vals_idx
    sc["inf_pair"] = None
    if dtype.startswith("float") and n >= 2 and s.chance(1, 6):
        p = s.draw(n - 1)
        sc["inf_pair"] = p
        sc["codes"][p + 1] = sc["codes"][p]
    # mask
    mk = s.weighted([(5, "none"), (3, "bool"), (2, "slice"), (3, "positions")])
    mask = None
    if mk == "bool":
        style = s.weighted([(4, "random"), (1, "all_true"), (1, "all_false"), (2, "block")])
        if style == "random":
            mask = [bool(s.draw(2)) for _ in range(n)]
        elif style == "all_true":
            mask = [True] * n
        elif style == "all_false":
            mask = [False] * n
        else:
            a = s.draw(n + 1)
            b = s.draw(n + 1)
            lo, hi = min(a, b), max(a, b)
            mask = [lo <= i < hi for i in range(n)]
        sc["mask"] = ["bool", mask]
    elif mk == "slice":
        def bound():
            k = s.draw(4)
            if k == 0:
                return None
            v = s.draw(n + 3)
            return v if k in (1, 2) else -v
        start, stop = bound(), bound()
        step = s.weighted([(6, None), (1, 1), (1, 2), (1, -1), (1, 3)])
        sc["mask"] = ["slice", [start, stop, step]]
    elif mk == "positions":
        style = s.weighted([(3, "sorted_unique"), (3, "unsorted"), (2, "repeated"), (2, "negative"), (1, "out_of_range"), (1, "empty"), (2, "negative_ascending")])
        m = s.draw(n + 3)
        pos = []
        if n == 0 or style == "empty":
            pos = []
            if style == "out_of_range":
                pos = [n + s.draw(3)]
        elif style == "sorted_unique":
            pos = sorted(set(s.draw(n) for _ in range(m)))
        elif style == "unsorted":
            pos = list(dict.fromkeys(s.draw(n) for _ in range(m)))
        elif style == "repeated":
            pos = [s.draw(n) for _ in range(m + 1)]
            pos.append(pos[0])
        elif style == "negative":
            pos = [s.draw(n) - (n if s.draw(2) else 0) for _ in range(m)]
        elif style == "negative_ascending":
            # ascending as numbers, not as rows: negative positions wrap around, so the rows they
            # name may come after, or coincide with, the rows named by the non-negative ones
            pos = sorted(set(s.draw(n) - (n if s.draw(2) else 0) for _ in range(m + 1)))
        elif style == "out_of_range":
            pos = [s.draw(n) for _ in range(m)]
            pos.insert(s.draw(len(pos) + 1), n + s.draw(3))
        pos_dtype = s.weighted([(5, "int64"), (1, "int32"), (1, "uint64")])
        if any(p < 0 for p in pos):
            pos_dtype = "int64"
        sc["mask"] = ["positions", pos, pos_dtype, style]
    else:
        sc["mask"] = ["none"]
    # execution
    can_chunk = dtype != "bool" and kernel != "size"
    ex = s.weighted([(6, "threads"), (3 if can_chunk else 0, "chunked_values")])
    if ex == "threads":
        sc["exec"] = ["threads", 2 + s.draw(7)]
    else:
        # drawn cut points -> chunk lengths (zero-length chunks allowed)
        k = 2 + s.draw(4)
        cuts = sorted(s.draw(n + 1) for _ in range(k - 1))
        lens = [b - a for a, b in zip([0] + cuts, cuts + [n])]
        sc["exec"] = ["chunked_values", lens, 1 + s.draw(3)]
    sc["workers"] = s.weighted([(5, None), (2, 1), (2, 2), (1, 3), (1, 5)])
    sc["return_count"] = not s.chance(1, 3)
    # containers of codes / values / boolean mask (the same ones for the single-pass and the
    # block-wise call, so the comparison between the two stays container-consistent)
    vc = s.weighted([(8, "ndarray"), (2, "strided"), (1, "readonly"), (2, "pandas"), (1, "polars"), (1, "arrow")])
    if vc in ("polars", "arrow") and not (dtype.startswith("float") or dtype in ("int64", "int32")):
        vc = "pandas"
    sc["containers"] = [s.weighted([(8, "ndarray"), (1, "strided"), (2, "pandas")]), vc, s.weighted([(5, "ndarray"), (1, "pandas")])]
    # fault plan
    if cfg.get("fault_mode"):
        kind = s.weighted([(3, "task_fail_before"), (3, "task_fail_after"), (2, "spawn_fail"), (2, "consumer_interrupt"), (2, "stmt_fail"), (2, "stmt_interrupt")])
        sc["fault"] = {"kind": kind, "k": s.draw(5)}
        if kind.startswith("stmt_"):
            # crash / interrupt before a drawn Python line of the library (position scaled by a traced dry run)
            sc["fault"].update(pos=s.draw(1000), mode=s.draw(2))
    else:
        sc["fault"] = None
    # pre-emptive pool model (task bodies in real threads, one at a time, pre-empted at drawn
    # library lines): fault-free runs only
    sc["preempt"] = sc["fault"] is None and s.chance(1, 4)
    return sc


# ---------------------------------------------------------------------------
# reference model
# ---------------------------------------------------------------------------


class RefRaises(Exception):
    pass


def ref_rows(n, mask):
    kind = mask[0]
    if kind == "none":
        return list(range(n))
    if kind == "bool":
        return [i for i, m in enumerate(mask[1]) if m]
    if kind == "slice":
        st, sp, step = mask[1]
        return list(range(n))[slice(st, sp, step)]
    if kind == "positions":
        rows = []
        for p in mask[1]:
            if p >= n or p < -n:
                raise RefRaises("position out of range")
            rows.append(p % n if n else p)
        return rows
    raise AssertionError(kind)


def _wrap64(x: int) -> int:
    return (x + 2**63) % 2**64 - 2**63


def ref_kernel(kernel, dtype, codes, values, ngroups, rows):
    """Per-group definition.  Returns (result list, count list or None, exact_ref)
    where result elements are python floats/ints/bools, None == null.
    exact_ref False means: this cell is left to the block-wise oracle only."""
    null = _null_of(dtype)
    is_float = dtype.startswith("float")
    ftype = np.float32 if dtype == "float32" else np.float64

    def isnull(v):
        if is_float:
            return v != v
        if null is not None:
            return v == null
        return False

    # raw python values
    if dtype[0] in "dt":
        raw = [int(x) for x in values.view("int64")]
    elif is_float:
        raw = [ftype(x) for x in values]
    elif dtype == "bool":
        raw = [bool(x) for x in values]
    else:
        raw = [int(x) for x in values]

    per_group = [[] for _ in range(ngroups)]
    for r in rows:
        c = codes[r]
        if c < 0:
            continue
        per_group[c].append(raw[r])

    exact = True
    res, cnt = [], []
    for vals in per_group:
        nn = [v for v in vals if not isnull(v)]
        if kernel == "size":
            res.append(len(vals)); cnt.append(len(vals))
        elif kernel == "count":
            res.append(len(nn)); cnt.append(len(nn))
        elif kernel in ("sum", "mean"):
            if is_float:
                acc = ftype(0)
                first = True
                for v in nn:
                    acc = v if first else ftype(acc + v)
                    first = False
                tot = float(acc)
            else:
                tot = 0
                for v in nn:
                    tot = _wrap64(tot + int(v))
            if kernel == "sum":
                if dtype == "int64" and len(nn) != len(vals):
                    exact = False  # ndarray int64 sum treats int64.min as a number; property does not say
                res.append(tot); cnt.append(len(nn))
            else:
                if len(nn) == 0:
                    res.append(None)
                elif dtype[0] in "dt":
                    res.append(int(np.float64(tot) / np.float64(len(nn))))
                else:
                    res.append(float(np.float64(tot) / np.float64(len(nn))))
                cnt.append(len(nn))
        elif kernel == "sum_squares":
            # values are cast to float first: only NaN is null afterwards
            if not is_float and null is not None and len(nn) != len(vals):
                exact = False
            acc = np.float64(0)
            first = True
            for v in nn:
                sq = np.float64(v) ** 2
                acc = sq if first else acc + sq
                first = False
            res.append(float(acc)); cnt.append(len(nn))
        elif kernel in ("min", "max"):
            if not nn:
                res.append(None if dtype != "bool" else False)
            else:
                res.append(min(nn) if kernel == "min" else max(nn))
            cnt.append(len(nn))
        elif kernel == "first":
            res.append(nn[0] if nn else (None if dtype != "bool" else False)); cnt.append(len(nn))
        elif kernel == "last":
            res.append(nn[-1] if nn else (None if dtype != "bool" else False)); cnt.append(None)
        else:
            raise AssertionError(kernel)
    return res, cnt, exact


def to_canonical(arr, dtype_hint=None):
    """Library output array -> list of python values with None for null."""
    a = np.asarray(arr)
    out = []
    if a.dtype.kind in "mM":
        for x in a.view("int64"):
            out.append(None if x == MIN_INT else int(x))
    elif a.dtype.kind == "f":
        for x in a:
            out.append(None if x != x else float(x))
    elif a.dtype.kind == "b":
        out = [bool(x) for x in a]
    elif a.dtype.kind == "i":
        lo = int(np.iinfo(a.dtype).min)
        for x in a:
            x = int(x)
            out.append(None if x == lo else x)
    else:
        hi = int(np.iinfo(a.dtype).max)
        for x in a:
            x = int(x)
            out.append(None if (x == hi and a.dtype.itemsize < 8) else x)
    return out


def _same(a, b, tol=0.0):
    if isinstance(a, float) and a != a:
        a = None  # NaN (e.g. inf - inf) is null
    if isinstance(b, float) and b != b:
        b = None
    if a is None or b is None:
        return a is None and b is None
    if isinstance(a, bool) or isinstance(b, bool):
        return bool(a) == bool(b) and (isinstance(a, (bool, int)) and isinstance(b, (bool, int)))
    if a == b:
        return True
    if tol and (isinstance(a, float) or isinstance(b, float)):
        return abs(float(a) - float(b)) <= tol
    return False


def lists_same(x, y, tol=0.0):
    return len(x) == len(y) and all(_same(a, b, tol) for a, b in zip(x, y))


# ---------------------------------------------------------------------------
# execution
# ---------------------------------------------------------------------------


def _build_inputs(sc):
    import pyarrow as pa

    dtype = sc["dtype"]
    n = len(sc["codes"])
    codes = np.array(sc["codes"], dtype=sc["code_dtype"]) if n else np.array([], dtype=sc["code_dtype"])
    values = _make_values(dtype, sc["vals_idx"], sc["arbitrary_floats"], sc.get("inf_pair"))
    m = sc["mask"]
    if m[0] == "none":
        mask = None
    elif m[0] == "bool":
        mask = np.array(m[1], dtype=bool)
    elif m[0] == "slice":
        mask = slice(*m[1])
    else:
        mask = np.array(m[1], dtype=m[2])
    return codes, values, mask


def _contain(arr, how, n_index=None):
    """Put an array into the container drawn for it (pandas objects get a non-default index)."""
    import pandas as pd
    import polars as pl
    import pyarrow as pa

    if how == "strided":
        big = np.zeros(2 * arr.size + 1, dtype=arr.dtype)
        big[1::2][: arr.size] = arr
        return big[1::2][: arr.size]
    if how == "readonly":
        a = arr.copy()
        a.setflags(write=False)
        return a
    if how == "pandas":
        return pd.Series(arr, index=np.arange(arr.size) * 2 + 5)
    if how == "polars":
        return pl.Series("v", arr)
    if how == "arrow":
        return pa.array(arr)
    return arr


def _call(kernel, codes, values, ngroups, mask, n_threads, return_count=True):
    from groupby_lib.groupby import numba as nbf

    with warnings.catch_warnings():
        warnings.simplefilter("ignore")
        with np.errstate(all="ignore"):
            if kernel == "size":
                r = nbf.group_size(codes, ngroups, mask=mask, n_threads=n_threads)
                return r, r
            f = getattr(nbf, f"group_{kernel}")
            if not return_count:
                # the form most callers use: only the reduced values come back
                r = f(codes, values, ngroups, mask=mask, n_threads=n_threads)
                return r, np.full(len(np.asarray(r)), -1, dtype=np.int64)
            return f(codes, values, ngroups, mask=mask, n_threads=n_threads, return_count=True)


def _outcome(fn):
    try:
        r, c = fn()
        return ("ok", to_canonical(r), [int(x) for x in np.asarray(c)], str(np.asarray(r).dtype))
    except BaseException as e:  # noqa: BLE001
        if isinstance(e, (KeyboardInterrupt, SystemExit, executor.ProtocolError)) and not isinstance(e, executor.InjectedInterrupt):
            raise
        return ("raise", type(e).__name__, compare.msg(e, 200))


def _blocks(sc, rows_sel):
    """Replicates how the wrapper splits work, to compute reach probes only."""
    ex = sc["exec"]
    m = sc["mask"]
    if ex[0] == "threads" or m[0] == "positions":
        # positional masks un-chunk the values and fall back to n_threads blocks
        k = ex[1] if ex[0] == "threads" else ex[2]
        if k == 1:
            return [list(rows_sel)]
        parts = np.array_split(np.array(rows_sel, dtype=np.int64), k)
        return [list(map(int, p)) for p in parts]
    # chunked values: blocks are the value chunks (intersected with the selection)
    lens = list(ex[1])
    bounds = np.cumsum([0] + lens)
    out = []
    for a, b in zip(bounds[:-1], bounds[1:]):
        out.append([r for r in rows_sel if a <= r < b])
    return out


def run_one(scen: Choices, sched: Choices, cls, cfg):
    return execute(gen_scenario(scen, cls, cfg), sched, cls, cfg)


def execute(sc, sched: Choices, cls, cfg):
    import pyarrow as pa

    dtype, kernel = cls
    n = len(sc["codes"])
    codes, values, mask = _build_inputs(sc)
    ngroups = sc["ngroups"]
    rec = {
        "violations": [],
        "probes": [],
        "faults": [],
        "interleavings": [],
        "ticks": 0,
        "nontrivial": False,
        "scenario": sc,
    }
    site_base = {"property": PROP, "op": kernel}
    features = {
        "dtype": dtype,
        "mask": sc["mask"][0] if sc["mask"][0] != "positions" else "positions_" + sc["mask"][3],
        "exec": sc["exec"][0],
    }

    def add(site, expected, actual):
        rec["violations"].append({"site": site, "features": dict(features), "expected": expected, "actual": actual})

    # ---- single pass under the null context (no pool can be created) ----
    executor.set_context(None)
    rc = sc.get("return_count", True)
    cc, vcont, mc = sc.get("containers", ["ndarray", "ndarray", "ndarray"])
    codes_in = _contain(codes, cc)
    values_in = _contain(values, vcont)
    mask_in = _contain(mask, mc) if (isinstance(mask, np.ndarray) and mask.dtype == bool) else mask
    features["containers"] = "/".join([cc, vcont, mc])
    single = _outcome(lambda: _call(kernel, codes_in, values_in, ngroups, mask_in, 1, rc))

    # ---- oracle (i): reference model ----
    try:
        rows = ref_rows(n, sc["mask"])
        ref = ref_kernel(kernel, dtype, sc["codes"], values, ngroups, rows)
        ref_raises = False
    except RefRaises:
        rows, ref, ref_raises = [], None, True

    tol = 0.0
    if sc["arbitrary_floats"]:
        u = 2.0**-24 if dtype == "float32" else 2.0**-53
        mag = 1e6 if kernel != "sum_squares" else 1e12
        tol = 4 * max(n, 1) * u * mag * max(n, 1)

    if ref_raises:
        if single[0] != "raise":
            add(dict(site_base, check="ref", outcome="returns_vs_raises"), "raise (position out of range)", single[1])
    else:
        res_ref, cnt_ref, exact = ref
        if single[0] == "raise":
            add(dict(site_base, check="ref", outcome="raises_vs_returns", exc=single[1]), res_ref, f"{single[1]}: {single[2]}")
        elif exact:
            if not lists_same(single[1], res_ref, tol):
                add(dict(site_base, check="ref", outcome="value_diff"), res_ref, single[1])
            elif rc and cnt_ref[0:1] != [None] and kernel != "last" and single[2] != cnt_ref:
                add(dict(site_base, check="ref_count", outcome="value_diff"), cnt_ref, single[2])

    # ---- block-wise under the simulated pool ----
    ex = sc["exec"]
    if ex[0] == "threads":
        bw_values, n_threads = values_in, ex[1]
    else:
        lens = ex[1]
        bounds = np.cumsum([0] + list(lens))
        if dtype[0] in "dt":
            # keep NaT as a *value* (no validity bitmap): chunk.to_numpy() refuses nulls
            atype = pa.timestamp("ns") if dtype[0] == "d" else pa.duration("ns")
            chunks = [pa.array(values[a:b].view("int64")).view(atype) for a, b in zip(bounds[:-1], bounds[1:])]
        else:
            chunks = [pa.array(values[a:b], from_pandas=False) for a, b in zip(bounds[:-1], bounds[1:])]
        bw_values = pa.chunked_array(chunks, type=chunks[0].type)
        n_threads = ex[2]
    this_fault = sc["fault"]
    if this_fault and this_fault["kind"].startswith("stmt_"):
        from . import gen as _gen

        dry = executor.LineTracer(None, mode=this_fault.get("mode", 0))
        with executor.use_context(executor.SimContext(sched=sched, workers=sc["workers"], cpu_count=4)):
            with dry:
                _outcome(lambda: _call(kernel, codes_in, bw_values, ngroups, mask_in, n_threads, rc))
        this_fault = _gen.arm_stmt_fault(this_fault, dry.count)
        rec["probes"].append("stmt_fault_armed")
    ctx = executor.SimContext(sched=sched, workers=sc["workers"], cpu_count=4, fault=this_fault, monitor=True, preempt=sc.get("preempt", False))
    with executor.use_context(ctx):
        block = _outcome(lambda: _call(kernel, codes_in, bw_values, ngroups, mask_in, n_threads, rc))
    if ctx.fault_where:
        rec["fault_sites"] = [ctx.fault_where]
    rec["n_preemptions"] = ctx.stats.get("preemptions", 0)
    rec["preempt_sites"] = sorted(ctx.preempt_sites)
    rec["ticks"] = ctx.ticks
    rec["interleavings"] = ctx.interleavings()
    rec["events"] = ctx.event_digest()
    rec["n_pools"] = ctx.n_pools
    rec["max_tasks"] = ctx.max_tasks
    for k_, v_ in ctx.stats.items():
        if v_:
            rec["probes"].append(k_)
    if ctx.hazards:
        rec["probes"].append("hazard_task_wrote_argument")
        rec["hazards"] = [list(map(str, h)) for h in ctx.hazards[:3]]
    if ctx.fault_fired:
        rec["faults"].append(ctx.fault_fired)

    fault_fired = ctx.fault_fired is not None
    # int64 `sum`: an ndarray treats int64.min as a number, every other container as
    # null (group_sum picks the reducer from the container type).  The property does
    # not say which is meant, so this cell is not compared across containers.
    skip_bw = False
    if dtype == "int64" and kernel == "sum" and ex[0] == "chunked_values" and single[0] == "ok":
        if any(int(v) == MIN_INT for v in values):
            skip_bw = True
            rec["probes"].append("int64_sum_null_cell_skipped")
    site_bw = dict(site_base, check="blockwise")
    features["fault"] = ctx.fault_fired or "none"
    if skip_bw:
        pass
    elif single[0] == "raise":
        if block[0] != "raise":
            add(dict(site_bw, outcome="returns_vs_raises", exc=single[1]), f"raise {single[1]}", block[1])
    elif block[0] == "raise":
        if not fault_fired:
            add(dict(site_bw, outcome="raises_vs_returns", exc=block[1]), single[1], f"{block[1]}: {block[2]}")
    else:
        if not lists_same(block[1], single[1], tol):
            add(dict(site_bw, outcome="value_diff"), single[1], block[1])
        elif block[2] != single[2]:
            add(dict(site_bw, check="blockwise_count", outcome="value_diff"), single[2], block[2])

    # ---- the same call again after a call in which a fault fired: nothing of the failed call may stick ----
    if fault_fired and not skip_bw:
        ctx2 = executor.SimContext(sched=sched, workers=sc["workers"], cpu_count=4, monitor=False)
        with executor.use_context(ctx2):
            again = _outcome(lambda: _call(kernel, codes_in, bw_values, ngroups, mask_in, n_threads, rc))
        rec["probes"].append("retry_after_fault")
        site_rt = dict(site_base, check="retry_after_fault")
        if single[0] == "raise":
            if again[0] != "raise":
                add(dict(site_rt, outcome="returns_vs_raises", exc=single[1]), f"raise {single[1]}", again[1])
        elif again[0] == "raise":
            add(dict(site_rt, outcome="raises_vs_returns", exc=again[1]), single[1], f"{again[1]}: {again[2]}")
        elif not lists_same(again[1], single[1], tol) or again[2] != single[2]:
            add(dict(site_rt, outcome="value_diff"), (single[1], single[2]), (again[1], again[2]))

    # ---- probes / non-triviality ----
    if not ref_raises:
        blocks = _blocks(sc, rows)
        null = _null_of(dtype)
        vi = values.view("int64") if dtype[0] in "dt" else values

        def accepted(r):
            c = sc["codes"][r]
            if c < 0:
                return None
            v = vi[r]
            if kernel != "size" and ((dtype.startswith("float") and v != v) or (null is not None and not dtype.startswith("float") and int(v) == null)):
                return None
            return c

        present = [set(filter(lambda x: x is not None, (accepted(r) for r in b))) for b in blocks]
        allg = set().union(*present) if present else set()
        if len(blocks) >= 2:
            rec["probes"].append("blocks_ge2")
            partial = any(any(g not in p for p in present) for g in allg)
            if partial:
                rec["probes"].append("merge_saw_empty_partial")
                rec["nontrivial"] = ctx.max_tasks >= 2
            if present and any(g not in present[0] for g in allg):
                rec["probes"].append("group_absent_from_first_block")
            if any(len(b) == 0 for b in blocks):
                rec["probes"].append("empty_block")
            if any(len(b) > 0 and not p for b, p in zip(blocks, present)):
                rec["probes"].append("all_null_block")
            if len(blocks) > max(len(rows), 0):
                rec["probes"].append("blocks_gt_rows")
        if sc["ngroups"] > (max(sc["codes"]) + 1 if sc["codes"] else 0):
            rec["probes"].append("spare_groups")
    else:
        rec["probes"].append("position_out_of_range_must_raise")

    dig = hashlib.blake2b(repr((cls, sc["codes"], sc["vals_idx"], sc["ngroups"], sc["mask"], sc["exec"], sc["code_dtype"], sc["arbitrary_floats"], sc.get("inf_pair"))).encode(), digest_size=8).hexdigest()
    rec["digest"] = dig
    rec["result"] = hashlib.blake2b(repr((single, block)).encode(), digest_size=8).hexdigest()
    if cfg.get("want_sample"):
        rec["sample"] = {"scenario": sc, "single_pass": single[:3], "blockwise": block[:3], "pools": [list(map(str, p)) for p in ctx.pools]}
    return rec
