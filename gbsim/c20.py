"""C20 -- stand-alone array helpers agree with their NumPy definitions.

Claimed for the reducer clause (nanops.* for any number of worker threads):
blocks reduced in simulated-pool tasks, then a second-stage reduction over the
block results.  Oracle: NumPy's NaN-aware functions computed in float64, plus a
relational arm (n_threads=k vs n_threads=1).  The helper clauses (nb_dot,
bools_to_categorical, pretty_cut) are pure functions; they are evaluated by the
same generator against their definitions and reported as `pure_subclause_*`
probes, but the level claimed rests on the reducer clause.
"""

from __future__ import annotations

import hashlib
import warnings

import numpy as np

from . import compare, executor, seams
from .choices import Choices

PROP = "C20"
BATCH = 400
SHRINK_EVALS = 3000
FUNCS_1D = ["nansum", "nanmean", "nanmin", "nanmax", "nanvar", "nanstd", "count"]
DT_QUICK = ["float64", "int64", "float32", "int32"]
DT_THOROUGH = ["float64", "int64", "float32", "int32"]
FUNCS_2D = ["nansum", "nanmin", "nanmax"]
HELPERS = ["nb_dot", "bools_to_categorical", "pretty_cut"]

RULE = (
    "one run = one (function, dtype) class + a 1-D array of length 1-64 over a small alphabet with the null placed by pattern (none, scattered, "
    "leading, trailing, one block all-null, all null), n_threads in {None, 1..8} (more threads than elements included), simulated cpu_count in "
    "{1,2,4,16,64}, the elements-per-thread literal of the default heuristic rescaled to {1..16} or left real, worker count, schedule stream and in "
    "every 5th run a fault plan; 2-D classes draw a matrix up to 6x6, an axis and n_threads 1-4 (nested pools). Non-trivial: the reduction ran in >=2 "
    "blocks through a simulated pool and at least one block is empty or contains a null. Distinct: blake2b of (class, letters, n_threads, cpu_count, knob, ddof/axis)."
)
ASSUMPTIONS = [
    "task bodies are atomic in the task-atomic pool model and pre-empted only at Python line events of groupby_lib frames in the pre-emptive model (one fault-free run in three); compiled kernels and pandas / NumPy calls are never split; NUMBA_BOUNDSCHECK=1 turns an out-of-bounds read into an IndexError",
    "statement-level faults are line-granular (DESIGN 9.4)",
    "integer arrays do not contain int64.min (the library's documented null marker; NumPy has none)",
    "NumPy reference computed in float64; sum/mean compared within 4*n*u*sum|x|, var/std within the sum-of-squares bound, min/max/count exactly",
    "helper clauses are pure functions evaluated alongside (no schedule in them)",
]
EXPECTED_PROBES = ["blocks_ge2", "blocks_gt_elements", "all_null_block", "default_threads_heuristic_gt1", "cpu_count_1", "nested_pool", "completion_order_not_fifo", "stmt_fault_armed", "preemptive_pools", "tasks_interleaved_inside_bodies", "retry_after_fault"]

_F = [1.0, np.nan, 0.0, -2.0, 0.5, 3.0, 7.0]
_FA = [0.1, np.nan, 1e-3, -3.7, 2.5e5, 1 / 3, -1e-7, 123.456, 9.99e5]
_I = [1, 0, -2, 3, 7, 5, 1000]
# a second integer alphabet with realistic large magnitudes (ids, cents, epoch seconds):
# block sums leave the int32 range and squares leave the int64 range
_IL = [1_073_741_824, 0, -2, 1_000_000_007, 7, -1_073_741_000, 1000]


def classes(tier):
    dts = DT_QUICK if tier == "quick" else DT_THOROUGH
    out = [["1d", f, d] for d in dts for f in FUNCS_1D]
    out += [["2d", f, d] for d in ("float64", "int64") for f in FUNCS_2D]
    out += [["helper", h, ""] for h in HELPERS]
    if tier == "thorough":
        out += [["real", f, "float64"] for f in ("nansum", "nanmin", "nanvar", "count")]
    return out


def class_weights(tier):
    cl = classes(tier)
    n_real = sum(1 for c in cl if c[0] == "real")
    if not n_real:
        return [1.0] * len(cl)
    real_share = 200 / n_runs(tier)  # real-scale arrays (2-8 M elements) cost ~0.1 s each
    w = (1.0 - real_share) / (len(cl) - n_real)
    return [real_share / n_real if c[0] == "real" else w for c in cl]


def n_runs(tier):
    return 120_000 if tier == "quick" else 6_000_000


def _letters(s: Choices, n, is_float, arb):
    idx = [s.draw(7) for _ in range(n)]
    if is_float:
        pat = s.weighted([(5, "as_drawn"), (1, "none"), (2, "leading"), (2, "trailing"), (2, "block"), (1, "all"), (1, "constant")])
        NULL = 1
        if pat == "none":
            idx = [0 if i == NULL else i for i in idx]
        elif pat == "leading":
            c = s.draw(n + 1)
            idx = [NULL if j < c else i for j, i in enumerate(idx)]
        elif pat == "trailing":
            c = s.draw(n + 1)
            idx = [NULL if j >= c else i for j, i in enumerate(idx)]
        elif pat == "block":
            a, b = sorted((s.draw(n + 1), s.draw(n + 1)))
            idx = [NULL if a <= j < b else i for j, i in enumerate(idx)]
        elif pat == "all":
            idx = [NULL] * n
        elif pat == "constant":
            # a constant array: the one-pass variance formula is all cancellation
            c = [0, 3, 5, 7, 8, 2][s.draw(6)]
            idx = [c] * n
    else:
        pat = "none"
    return idx, pat


def _arr(idx, dtype, arb):
    if dtype.startswith("float"):
        alpha = _FA if arb else _F
        return np.array([alpha[i % len(alpha)] for i in idx], dtype=dtype)
    alpha = _IL if arb else _I
    return np.array([alpha[i % len(alpha)] for i in idx], dtype=dtype)


def gen(s: Choices, cls, cfg):
    kind, func, dtype = cls
    sc = {"kind": kind, "func": func, "dtype": dtype}
    if kind == "1d":
        size_class = s.weighted([(6, 0), (3, 1), (1, 2)])
        n = 1 + (s.draw(8) if size_class == 0 else 8 + s.draw(12) if size_class == 1 else 20 + s.draw(44))
        is_float = dtype.startswith("float")
        arb = s.chance(1, 8)  # floats: arbitrary values; ints: large magnitudes
        sc["arb"] = arb
        sc["idx"], sc["nullpat"] = _letters(s, n, is_float, arb)
        if sc["nullpat"] == "constant":
            sc["arb"] = True  # values such as 0.1 whose squares are not exact
        sc["n_threads"] = s.weighted([(3, None), (1, 1), (2, 2), (2, 3), (1, 4), (1, 5), (1, 8), (1, 7), (1, 6)])
        sc["cpu"] = s.weighted([(4, 4), (2, 1), (1, 2), (1, 16), (1, 64)])
        sc["elems"] = s.weighted([(3, None), (2, 1), (2, 2), (2, 4), (1, 8), (1, 16)])
        sc["ddof"] = s.weighted([(3, 1), (2, 0)])
        sc["container"] = s.weighted([(6, "ndarray"), (2, "strided"), (1, "pandas"), (1, "readonly")])
        sc["inf"] = arb and is_float and func in ("nansum", "nanmin", "nanmax", "nanmean", "count") and s.chance(1, 3)
    elif kind == "2d":
        r, c = 1 + s.draw(6), 1 + s.draw(6)
        is_float = dtype.startswith("float")
        sc["arb"] = False
        sc["shape"] = [r, c]
        sc["idx"], sc["nullpat"] = _letters(s, r * c, is_float, False)
        sc["axis"] = s.draw(2)
        sc["n_threads"] = s.weighted([(2, 2), (1, 1), (2, 3), (1, 4), (1, None)])
        sc["cpu"] = s.weighted([(4, 4), (2, 1), (1, 2), (1, 16)])
        sc["elems"] = s.weighted([(3, None), (2, 1), (2, 2)])
        sc["order"] = s.weighted([(3, "C"), (1, "F"), (1, "sliced")])
    elif kind == "real":
        sc["n"] = [2_000_000, 3_999_999, 4_000_000, 6_000_001, 8_000_000][s.draw(5)]
        sc["nullfrac"] = s.weighted([(2, 0), (2, 1), (1, 2)])  # none / first block all null / scattered
        sc["cpu"] = s.weighted([(3, 4), (2, 2), (1, 16), (1, 1)])
        sc["n_threads"] = s.weighted([(3, None), (1, 3), (1, 8)])
        sc["elems"] = None
        sc["ddof"] = 1
        sc["dseed"] = s.draw(1000)
    else:  # helpers
        if func == "nb_dot":
            r, c = s.draw(7), 1 + s.draw(5)
            sc["shape"] = [r, c]
            sc["kind_a"] = s.weighted([(3, "ndarray"), (2, "pandas"), (1, "polars")])
            sc["dt"] = s.weighted([(2, "float64"), (2, "int64"), (1, "mixed"), (1, "mixed_columns")])
            sc["a"] = [s.draw(7) for _ in range(r * c)]
            sc["b"] = [s.draw(7) for _ in range(c)]
            sc["numba_threads"] = 1 + s.draw(2)
        elif func == "bools_to_categorical":
            # column counts around the bit-width switch-over points (8, 16, 32) included
            r, c = s.draw(7), s.weighted([(6, 1 + s.draw(4)), (1, 7), (1, 8), (1, 9), (1, 15), (1, 16), (1, 17), (1, 31), (1, 32), (1, 33)])
            sc["shape"] = [r, c]
            sc["bits"] = [s.draw(2) for _ in range(r * c)]
            sc["numba_threads"] = 1 + s.draw(2)
        else:
            nb = 1 + s.draw(4)
            sc["is_int"] = bool(s.draw(2))
            bins = list(dict.fromkeys(s.draw(12) for _ in range(nb)))
            sc["bins"] = bins if s.chance(1, 3) else sorted(bins)  # also unsorted bins
            sc["offset"] = s.weighted([(3, 0), (2, 5), (1, 11)])  # shifts edges and values below zero
            sc["int_x_float_bins"] = (not sc["is_int"]) and s.chance(1, 4)
            sc["x"] = [s.draw(14) for _ in range(1 + s.draw(8))]
            sc["nulls"] = [s.chance(1, 6) for _ in sc["x"]]
            sc["series"] = bool(s.draw(2))
    sc["workers"] = s.weighted([(5, None), (2, 1), (2, 2), (1, 3)])
    if cfg.get("fault_mode") and kind in ("1d", "2d", "real"):
        kindf = s.weighted([(3, "task_fail_before"), (3, "task_fail_after"), (2, "spawn_fail"), (2, "consumer_interrupt"), (2, "stmt_fail"), (2, "stmt_interrupt")])
        sc["fault"] = {"kind": kindf, "k": s.draw(4)}
        if kindf.startswith("stmt_") and kind != "real":
            # crash / interrupt before a drawn Python line of the library (position scaled by a traced dry run)
            sc["fault"].update(pos=s.draw(1000), mode=s.draw(2))
        elif kindf.startswith("stmt_"):
            sc["fault"]["kind"] = "task_fail_before"
    else:
        sc["fault"] = None
    # pre-emptive pool model: fault-free runs only
    sc["preempt"] = sc["fault"] is None and kind in ("1d", "2d") and s.chance(1, 4)
    return sc


def _np_ref(func, a64, ddof, axis=None):
    with warnings.catch_warnings():
        warnings.simplefilter("ignore")
        with np.errstate(all="ignore"):
            if func == "count":
                return np.count_nonzero(~np.isnan(a64), axis=axis)
            f = getattr(np, func)
            if func in ("nanvar", "nanstd"):
                return f(a64, ddof=ddof, axis=axis)
            return f(a64, axis=axis)


def _call(func, arr, n_threads, ddof=None, axis=None):
    from groupby_lib import nanops

    with warnings.catch_warnings():
        warnings.simplefilter("ignore")
        with np.errstate(all="ignore"):
            f = getattr(nanops, func)
            if func == "count":
                return f(arr, axis=axis)
            kw = dict(n_threads=n_threads)
            if axis is not None:
                kw["axis"] = axis
            if func in ("nanvar", "nanstd"):
                kw["ddof"] = ddof
            return f(arr, **kw)


def _canon(x):
    a = np.asarray(x)
    if a.dtype.kind in "mM":
        a = a.view("int64")
    a = a.astype(np.float64).ravel() if a.dtype.kind in "fiub" else a.ravel()
    return [None if (isinstance(v, float) and v != v) else float(v) for v in a.tolist()]


def _outcome(fn):
    try:
        return ("ok", _canon(fn()))
    except BaseException as e:  # noqa: BLE001
        if isinstance(e, (KeyboardInterrupt, SystemExit, executor.ProtocolError)) and not isinstance(e, executor.InjectedInterrupt):
            raise
        return ("raise", type(e).__name__, compare.msg(e, 200))


def _close(a, b, tol):
    if len(a) != len(b):
        return False
    for x, y in zip(a, b):
        if x is None or y is None:
            if not (x is None and y is None):
                return False
        elif x != y and abs(x - y) > tol:
            return False
    return True


def _tol(func, a64, dtype, ddof):
    x = a64[~np.isnan(a64)] if a64.dtype.kind == "f" else a64
    n = max(int(x.size), 1)
    # float32 input: the library squares in float32 (and NumPy itself would reduce in float32)
    u = 2.0**-24 if dtype == "float32" else 2.0**-53
    s1 = float(np.abs(x).sum()) if x.size else 0.0
    s2 = float((x.astype(np.float64) ** 2).sum()) if x.size else 0.0
    if func in ("nanmin", "nanmax", "count"):
        return 0.0
    if func == "nansum":
        return 4 * n * u * s1
    if func == "nanmean":
        return 4 * n * u * s1 / n + 4 * u * s1 / n
    d = max(n - ddof, 1)
    tv = 8 * n * u * (s2 + s1 * s1 / n) / d
    if func == "nanvar":
        return tv
    # std: |sqrt(a)-sqrt(b)| <= sqrt(|a-b|)
    return float(np.sqrt(tv)) + 1e-300


def run_one(scen: Choices, sched: Choices, cls, cfg):
    return execute(gen(scen, cls, cfg), sched, cls, cfg)


gen_scenario = gen


def execute(sc, sched: Choices, cls, cfg):
    kind, func, dtype = cls
    rec = {"violations": [], "probes": [], "faults": [], "interleavings": [], "ticks": 0, "nontrivial": False, "n_pools": 0, "scenario": sc}
    site = {"property": PROP, "op": func, "kind": kind}
    features = {"dtype": dtype}

    def add(check, outcome, expected, actual, **kw):
        rec["violations"].append({"site": dict(site, check=check, outcome=outcome, **kw), "features": dict(features), "expected": expected, "actual": actual})

    if kind == "helper":
        _run_helper(sc, rec, add)
        rec["digest"] = hashlib.blake2b(repr(sc).encode(), digest_size=8).hexdigest()
        rec["result"] = rec["digest"]
        rec["events"] = ""
        rec["probes"].append(f"pure_subclause_{func}")
        if cfg.get("want_sample"):
            rec["sample"] = {"scenario": sc}
        return rec

    # ---- build the array ----
    if kind == "1d":
        arr = _arr(sc["idx"], dtype, sc["arb"])
        if sc.get("inf"):
            arr = arr.copy()
            arr[np.array(sc["idx"]) == 4] = np.inf
            arr[np.array(sc["idx"]) == 6] = -np.inf
        cont = sc.get("container", "ndarray")
        if cont == "strided":
            big = np.zeros(2 * arr.size + 1, dtype=arr.dtype)
            big[1::2][: arr.size] = arr
            arr = big[1::2][: arr.size]
        elif cont == "readonly":
            arr = arr.copy()
            arr.setflags(write=False)
        axis = None
    elif kind == "2d":
        r, c = sc["shape"]
        arr = _arr(sc["idx"], dtype, False).reshape(r, c)
        if sc["order"] == "F":
            arr = np.asfortranarray(arr)
        elif sc["order"] == "sliced":
            big = np.zeros((2 * r + 1, 2 * c + 1), dtype=arr.dtype)
            big[1::2, 1::2][:r, :c] = arr
            arr = big[1::2, 1::2][:r, :c]  # a non-contiguous view
        axis = sc["axis"]
    else:
        rng = np.random.RandomState(sc["dseed"])
        n = sc["n"]
        arr = rng.randint(-50, 50, size=n).astype(np.float64)
        if sc["nullfrac"] == 1:
            arr[: n // 2] = np.nan
        elif sc["nullfrac"] == 2:
            arr[rng.randint(0, n, size=n // 10)] = np.nan
        axis = None
    ddof = sc.get("ddof", 1)
    a64 = arr.astype(np.float64)
    ref = ("ok", _canon(_np_ref(func, a64, ddof, axis)))
    tol = _tol(func, a64, dtype, ddof)
    features.update(n_threads="default" if sc["n_threads"] is None else ("1" if sc["n_threads"] == 1 else ">1"), cpu=sc["cpu"])

    seams.set_knobs(nanops_elems=sc["elems"])
    ctx = executor.SimContext(sched=sched, workers=sc["workers"], cpu_count=sc["cpu"], fault=sc["fault"], monitor=kind != "real", preempt=sc.get("preempt", False))
    before = np.array(arr, copy=True) if kind != "real" else None
    arg = arr
    if kind == "1d" and sc.get("container") == "list":
        arg = arr.tolist()
    elif kind == "1d" and sc.get("container") == "pandas":
        import pandas as pd

        arg = pd.Series(arr, index=np.arange(arr.size) * 3 + 7, copy=False)
    if sc["fault"] and sc["fault"]["kind"].startswith("stmt_"):
        from . import gen as _gen

        dry = executor.LineTracer(None, mode=sc["fault"].get("mode", 0))
        with executor.use_context(executor.SimContext(sched=sched, workers=sc["workers"], cpu_count=sc["cpu"])):
            with dry:
                _outcome(lambda: _call(func, arg, sc["n_threads"], ddof, axis))
        ctx.fault = _gen.arm_stmt_fault(sc["fault"], dry.count)
        rec["probes"].append("stmt_fault_armed")
    with executor.use_context(ctx):
        got = _outcome(lambda: _call(func, arg, sc["n_threads"], ddof, axis))
    fired = ctx.fault_fired
    if ctx.fault_where:
        rec["fault_sites"] = [ctx.fault_where]
    rec["n_preemptions"] = ctx.stats.get("preemptions", 0)
    rec["preempt_sites"] = sorted(ctx.preempt_sites)
    features["fault"] = fired or "none"
    if before is not None and not np.array_equal(before, arr, equal_nan=True):
        add("input_unchanged", "input_mutated", "input array unchanged", "changed")
    if got[0] == "raise":
        if not fired:
            add("numpy", "raises_vs_returns", ref[1], f"{got[1]}: {got[2]}", exc=got[1])
    elif not _close(got[1], ref[1], tol):
        add("numpy", "value_diff", ref[1], got[1])

    # ---- the same call again after a call in which a fault fired: nothing of the failed call may stick ----
    if fired:
        ctx2 = executor.SimContext(sched=sched, workers=sc["workers"], cpu_count=sc["cpu"])
        with executor.use_context(ctx2):
            again = _outcome(lambda: _call(func, arg, sc["n_threads"], ddof, axis))
        rec["probes"].append("retry_after_fault")
        if again[0] == "raise":
            add("retry_after_fault", "raises_vs_returns", ref[1], f"{again[1]}: {again[2]}", exc=again[1])
        elif not _close(again[1], ref[1], tol):
            add("retry_after_fault", "value_diff", ref[1], again[1])

    # ---- relational arm: same array, one thread, no pool ----
    if kind != "real" and sc["n_threads"] != 1:
        ctx1 = executor.SimContext(sched=sched, workers=None, cpu_count=4, fault=None)
        seams.set_knobs(nanops_elems=None)
        with executor.use_context(ctx1):
            one = _outcome(lambda: _call(func, arr, 1, ddof, axis))
        if one[0] == "ok" and got[0] == "ok" and not _close(got[1], one[1], tol):
            add("threads_vs_one", "value_diff", one[1], got[1])
        elif one[0] == "ok" and got[0] == "raise" and not fired and ref[0] == "ok":
            pass  # already reported against numpy

    # ---- probes ----
    rec["ticks"] = ctx.ticks
    rec["interleavings"] = ctx.interleavings()
    rec["events"] = ctx.event_digest()
    rec["n_pools"] = ctx.n_pools
    for k_, v_ in ctx.stats.items():
        if v_:
            rec["probes"].append(k_)
    if ctx.hazards:
        rec["probes"].append("hazard_task_wrote_argument")
    if fired:
        rec["faults"].append(fired)
    if sc["cpu"] == 1:
        rec["probes"].append("cpu_count_1")
    if kind in ("1d", "real"):
        n = arr.size
        nt = sc["n_threads"]
        if nt is None:
            elems = sc["elems"] if sc["elems"] is not None else 2e6
            nt_eff = min(max(1, n // int(elems)), sc["cpu"] * 2 - 2)
            if nt_eff > 1:
                rec["probes"].append("default_threads_heuristic_gt1")
        else:
            nt_eff = nt
        if nt_eff >= 2:
            rec["probes"].append("blocks_ge2")
            blocks = np.array_split(a64, nt_eff)
            if nt_eff > n:
                rec["probes"].append("blocks_gt_elements")
            allnull = any(b.size and np.isnan(b).all() for b in blocks)
            if allnull:
                rec["probes"].append("all_null_block")
            if ctx.max_tasks >= 2 and (np.isnan(a64).any() or any(b.size == 0 for b in blocks)):
                rec["nontrivial"] = True
    else:
        if ctx.max_tasks >= 2:
            rec["probes"].append("blocks_ge2")
            if np.isnan(a64).any() or ctx.stats.get("nested_pool"):
                rec["nontrivial"] = True
    key = (cls, sc.get("idx"), sc.get("n_threads"), sc.get("cpu"), sc.get("elems"), sc.get("ddof"), sc.get("axis"), sc.get("shape"), sc.get("n"), sc.get("dseed"), sc.get("nullfrac"))
    rec["digest"] = hashlib.blake2b(repr(key).encode(), digest_size=8).hexdigest()
    rec["result"] = hashlib.blake2b(repr((got, ref)).encode(), digest_size=8).hexdigest()
    if cfg.get("want_sample"):
        rec["sample"] = {"scenario": {k: v for k, v in sc.items()}, "library": got[:3], "numpy": ref[1], "tolerance": tol, "pools": [list(map(str, p)) for p in ctx.pools]}
    return rec


# ---------------------------------------------------------------------------
# pure helper clauses
# ---------------------------------------------------------------------------


def _run_helper(sc, rec, add):
    import numba
    import pandas as pd
    import polars as pl

    from groupby_lib import util

    func = sc["func"]
    if func == "nb_dot":
        r, c = sc["shape"]
        numba.set_num_threads(sc["numba_threads"])
        ai = np.array([_I[i] for i in sc["a"]], dtype="int64").reshape(r, c)
        bi = np.array([_I[i] for i in sc["b"]], dtype="int64")
        if sc["dt"] == "float64":
            a, b = ai / 2.0, bi / 2.0
        elif sc["dt"] == "mixed":
            a, b = ai, bi / 2.0
        else:
            a, b = ai, bi
        mixed_cols = sc["dt"] == "mixed_columns"
        if mixed_cols:
            a = ai.astype(np.float64)
            a[:, 1::2] /= 2.0  # odd columns hold halves, even columns whole numbers
        exp = a @ b

        def col(j):
            # a frame whose columns have different dtypes: even columns int64, odd float64
            return a[:, j].astype(np.int64) if (mixed_cols and j % 2 == 0) else a[:, j]

        if sc["kind_a"] == "ndarray":
            A = a
        elif sc["kind_a"] == "pandas":
            A = pd.DataFrame({f"c{j}": col(j) for j in range(c)}, index=np.arange(r) * 3 + 1) if c else pd.DataFrame(a)
        else:
            A = pl.DataFrame({f"c{j}": col(j) for j in range(c)})
        try:
            got = util.nb_dot(A, b)
            g = np.asarray(got, dtype=np.float64)
            if g.shape != exp.shape or not np.array_equal(g, exp.astype(np.float64)):
                add("definition", "value_diff", exp.tolist(), g.tolist())
            if sc["kind_a"] == "pandas" and not got.index.equals(A.index):
                add("definition", "label_diff", list(A.index), list(got.index))
        except Exception as e:  # noqa: BLE001
            add("definition", "raises_vs_returns", exp.tolist(), f"{type(e).__name__}: {e}", exc=type(e).__name__)
    elif func == "bools_to_categorical":
        r, c = sc["shape"]
        numba.set_num_threads(sc["numba_threads"])
        cols = [f"k{j}" for j in range(c)]
        bits = np.array(sc["bits"], dtype=bool).reshape(r, c)
        df = pd.DataFrame(bits, columns=cols, index=np.arange(r) + 10)
        exp = [" & ".join(cn for cn, b in zip(cols, row) if b) or "None" for row in bits]
        try:
            got = util.bools_to_categorical(df)
            g = [str(x) for x in got.tolist()]
            if g != exp:
                add("definition", "value_diff", exp, g)
            elif not got.index.equals(df.index):
                add("definition", "label_diff", list(df.index), list(got.index))
        except Exception as e:  # noqa: BLE001
            add("definition", "raises_vs_returns", exp, f"{type(e).__name__}: {e}", exc=type(e).__name__)
    else:
        is_int = sc["is_int"]
        off = sc.get("offset", 0)
        if is_int:
            bins = np.array(sc["bins"], dtype="int64") - off
            x = np.array(sc["x"], dtype="int64") - off
            nulls = [False] * len(x)
        elif sc.get("int_x_float_bins"):
            bins = (np.array(sc["bins"], dtype="float64") - off) / 2.0
            x = np.array(sc["x"], dtype="int64") - off
            nulls = [False] * len(x)
        else:
            bins = (np.array(sc["bins"], dtype="float64") - off) / 4.0
            x = (np.array(sc["x"], dtype="float64") - off) / 4.0
            nulls = sc["nulls"]
            x[np.array(nulls, dtype=bool)] = np.nan
        X = pd.Series(x, index=np.arange(len(x)) + 5) if sc["series"] else x
        try:
            got = util.pretty_cut(X, bins)
            labels = [None if (isinstance(v, float) and v != v) else v for v in pd.Series(got).astype(object).tolist()]
            bad = []
            for v, isnull, lab in zip(x, nulls, labels):
                if isnull:
                    if lab is not None:
                        bad.append((None, lab))
                    continue
                if lab is None or not _label_contains(str(lab), float(v), is_int):
                    bad.append((float(v), lab))
            if bad:
                add("definition", "value_diff", "every value inside its printed bin", bad[:4])
        except Exception as e:  # noqa: BLE001
            add("definition", "raises_vs_returns", "labels", f"{type(e).__name__}: {e}", exc=type(e).__name__)


def _label_contains(lab: str, v: float, is_int: bool) -> bool:
    s = lab.strip()
    if s.startswith("<="):
        return v <= float(s[2:])
    if s.startswith(">"):
        return v > float(s[1:])
    if " - " in s:
        # beware negative numbers: split on the separator with spaces
        left, right = s.split(" - ", 1)
        lo, hi = float(left), float(right)
        return (lo <= v <= hi) if is_int else (lo < v <= hi)
    return v == float(s)
