#!/bin/bash
# usage: tools_worktree.sh <dir> [commit]   -- scratch worktree of /repo with a warm numba cache
# (copies /repo's git-ignored __pycache__ and aligns source mtimes so that numba's
#  in-tree cache stays valid for unmodified files). Remove with:
#  git -C /repo worktree remove --force <dir>
set -e
d="$1"; c="${2:-HEAD}"
git -C /repo worktree add -q --detach "$d" "$c"
cd /repo
find groupby_lib -name "*.py" | while read f; do
  if [ -f "$d/$f" ] && cmp -s "$f" "$d/$f"; then touch -r "$f" "$d/$f"; fi
done
find groupby_lib -type d -name __pycache__ | while read p; do
  mkdir -p "$d/$p"; cp -p "$p"/*.nbi "$p"/*.nbc "$d/$p"/ 2>/dev/null || true
done
echo "worktree ready: $d"
