"""Builds the markdown table of DESIGN.md section 12 from tools_mutants logs.
usage: tools_sens_table.py log1 [log2 ...]"""
import re, sys, collections
rows = collections.OrderedDict()
title = {}
for path in sys.argv[1:]:
    cur = None
    for line in open(path, errors="replace"):
        m = re.match(r"=== (\S+) (.*?)\s+(?:\(expect detected=(\w+)\) )?-> ", line)
        if m:
            cur = m.group(1)
            title[cur] = m.group(2)[:90] + (f" (expected detected={m.group(3)})" if m.group(3) else "")
            continue
        m = re.match(r"\[(\S+)\] (C\d\d): exit=(\d) detected=(\w+) sites=(\d+) .*?runs=(\d+) .*?violating_runs=(\d+)", line)
        if m:
            label, prop, ex, det, sites, runs, viol = m.groups()
            key = label
            rows.setdefault(key, {})[prop] = f"{'**yes**' if det=='True' else 'no'} ({viol}/{runs})"
props = ["C03", "C04", "C13", "C19", "C20"]
print("| change | " + " | ".join(props) + " |")
print("|---|" + "---|" * len(props))
for key, d in rows.items():
    k2 = key.replace("rev-", "").replace("own-", "")
    t = title.get(k2, title.get(key, ""))
    print(f"| `{key}` {t} | " + " | ".join(d.get(p, "") for p in props) + " |")
