import json, os, sys
ROOT='/verif/seeded'
META={
 'C20-a': dict(property='C20', file='groupby_lib/nanops.py: reduce_1d', needs='reducer sum_square (nanvar/nanstd) AND effective thread count >= 2 (explicit n_threads>=2 or the default heuristic picking >1 thread) AND at least two valid values; single-threaded calls are bit-identical',
   detected_by={'C20': 'yes: 880 of 10000 runs violate (checks numpy and threads_vs_one, ops nanvar/nanstd)'}),
 'C13-a': dict(property='C13', file='groupby_lib/groupby/core.py: GroupBy._unify_group_key_chunks_for_positional_mask', needs='a chunked key, then an operation that unifies the key but keeps it chunked (groups/apply/median/quantile), then a reduction with an integer-position mask that repeats a position or is out of row order; a single call on a fresh object is right',
   detected_by={'C13': 'yes (reused_vs_fresh value_diff / label_diff on count, sum, size, first): 5 of 4000 quick runs. Thin at first (1 of 1200), which led to biasing early history steps towards layout-changing operations, chunkable key kinds and more positional masks', 'C03': 'no (by design: fresh object per operation)'}),
 'C04-a': dict(property='C04', file='groupby_lib/groupby/numba.py: combine_chunk_results_for_factorized_key', needs='block-wise call (n_threads>=2 or >=2 value chunks) AND kernel min/first (any dtype) or max (float) AND a group that is empty or all-null in every block before the first block where it has a value',
   detected_by={'C04': 'yes (blockwise value_diff on min/max/first)', 'C03': 'yes: 62 of 2500 runs (strategy_vs_baseline and fault_relaxed)'}),
 'C03-a': dict(property='C03', file='groupby_lib/groupby/core.py: GroupBy._factorize_group_key_in_chunks', needs='chunk-wise route (>= threshold rows or arrow-chunked key) AND a sorted prefix longer than a quarter of the rows but not a fully sorted key AND sort=True AND the unsorted remainder contains a label absent from the prefix that sorts before one of its labels',
   detected_by={'C03': 'yes: 28 of 2500 runs, 23 sites (labels and values)', 'C13': 'no (by design: the fresh model has the same defect)'}),
 'C19-a': dict(property='C19', file='groupby_lib/groupby/core.py: GroupBy.size', needs='size() without mask/transform/margins AND labels needing no re-ordering (first appearance sorted, categorical, or sort=False) AND no group dropped AND the caller edits the returned Series in place AND a later call on the same object',
   detected_by={'C19': 'yes: 29 of 2500 runs (repeat_same_object on size, repeat_fresh_object on key_count)'}),
}
META.update({
 'C03-b': dict(property='C03', file='groupby_lib/groupby/numba.py: _chunk_args_for_unchunked_values', needs='an un-chunked key reduced on more than one thread without boolean/positional mask (through GroupBy: >= 1,000,000 rows, key not factorized in chunks, (2*cpu_count-1)//n_columns >= 2) AND len/n_threads rounding down (e.g. N = 1 mod 4 with 2 threads): the last 1-2 rows reach no worker',
   detected_by={'C03': 'yes: 49 of 2500 runs, 21 sites', 'C04': 'yes: 1561 of 20000 runs (blockwise and blockwise_count)'}),
 'C04-b': dict(property='C04', file='groupby_lib/groupby/numba.py: _chunk_groupby_args', needs='n_threads > 1 AND a positional mask whose positions are not ascending (descending, shuffled, negative mixed with non-negative) AND kernel first/last',
   detected_by={'C04': 'yes: 35 of 20000 runs (blockwise value_diff on first/last)'}),
 'C13-b': dict(property='C13', file='groupby_lib/groupby/core.py: GroupBy._resolve_mask_argument_into_chunks (memo keyed on the identity of the mask object)', needs='a chunk-factorized key: (1) a reduction with a mask object m while the pointer tables exist, (2) groups/apply/median/quantile (unify, keep chunked), (3) a reduction with the SAME mask object m; an equal but distinct mask object does not trigger it',
   detected_by={'C13': 'MISSED at first (0 of 2000): the harness built fresh mask arrays for every step. Strengthened: the simulated client now owns a pool of mask objects and value objects reused across steps, and a third of the histories start with a call / layout-changing step / same call sandwich. Now yes: 22 of 4000 quick runs, 14 sites'}),
 'C19-b': dict(property='C19', file='groupby_lib/emas.py: ema_grouped', needs='GroupBy.ema (index_by_groups=False) or ema_grouped with a mask containing a False AND float64 values in a plain writable ndarray (no conversion copy): values[~mask] are overwritten with NaN; return values are bit-identical',
   detected_by={'C19': 'yes but thin: 3 of 2500 runs (inputs_unchanged on ema / ema_timed, task_wrote_argument on ema); histories lengthened to 1-6 steps afterwards'}),
 'C20-b': dict(property='C20', file='groupby_lib/nanops.py: reduce_1d', needs='>= 2 blocks AND an integer dtype narrower than 64 bits AND a widening reduction (sum/mean/var/std/count) AND a block partial outside the input dtype range',
   detected_by={'C20': 'yes: 9 of 10000 runs, but only after the integer alphabet got realistic large magnitudes (1e9) and int32 joined the quick dtypes -- both added because of this mutant and of the int overflow the same agent pointed out in nanvar (repaired as d3d9ec6)'}),
 'C03-c': dict(property='C03', file='groupby_lib/groupby/core.py: GroupBy.count_ikey', needs='a chunked key that still has its pointer tables AND a slice mask whose start lies at or beyond the end of the first key chunk AND a reduction with observed_only=True where some group has zero count in the slice AND chunks with differing pointer tables: the set of groups reported as observed is wrong (values stay right)',
   detected_by={'C03': 'yes but thin: 1 of 2500 runs (strategy_vs_baseline label_diff on sum); slice masks were made more frequent and their bounds biased to likely chunk boundaries afterwards (still ~1 of 2500: the conjunction is rare; the thorough tier runs 120 000)'}),
 'C04-c': dict(property='C04', file='groupby_lib/groupby/numba.py: _group_func_wrap', needs='values with more than one chunk (pyarrow.ChunkedArray) AND a slice mask that has a step other than 1 or cuts into the column: the slice is applied to each chunk separately',
   detected_by={'C04': 'yes: 112 of 20000 runs, 9 sites -- through non-stepped slices only, because the generator wrongly excluded stepped slices over chunked values ("not supported by pyarrow": they are); exclusion removed'}),
 'C13-c': dict(property='C13', file='groupby_lib/groupby/core.py: groupby_method decorator (module-level memo of the last class-form grouping, keyed on a weak reference to the key object)', needs='a class-form call with a weak-referenceable key object K, then K edited in place (same Python object, new content), then another class-form call with K and no class-form call on another key object in between',
   detected_by={'C13': 'MISSED at first: class-form steps built fresh key arrays. Strengthened in two steps: the simulated client owns the class-form key object and reuses it (plus a second key array of the same length), and may refill its key buffer in place between two class-form calls; class-form calls come in bursts. Now yes: 36 of 3000 runs, 24 sites'}),
 'C19-c': dict(property='C19', file='groupby_lib/groupby/core.py: GroupBy.size', needs='size() with mask=None, no transform, no margins AND observed_only=False AND labels needing no re-ordering AND the caller edits the returned Series in place AND the same object is used again (variant of C19-a through another option)',
   detected_by={'C19': 'yes: 23 of 1200 runs (repeat_same_object on size)'}),
 'C20-c': dict(property='C20', file='groupby_lib/nanops.py: reduce_2d', needs='2-D input AND an explicit n_threads with 2 <= n_threads < number of rows/columns reduced AND per-slice results not all equal: results are returned round-robin interleaved',
   detected_by={'C20': 'yes: 511 of 10000 runs, 6 sites'}),
 'C13-d': dict(property='C13', file='groupby_lib/groupby/core.py: GroupBy.count_ikey (counts memoised for the last mask, keyed on the identity of the mask object)', needs='(1) a masked reduction other than size with mask object m that leaves some group empty, (2) the client refills m in place so that another set of groups is fully masked, (3) another masked reduction with the same object m: the observed groups of step 1 are reused',
   detected_by={'C13': 'MISSED as generated before: pool masks were reused but never refilled. Every pool mask now has a second content of the same shape and the client refills the same object in place between calls. Now yes: 27 of 3000 runs, 9 sites'}),
 'C19-d': dict(property='C19', file='groupby_lib/util.py: _val_to_numpy (new zero-copy branch writing NaN into the null slots of an Arrow float buffer through ctypes)', needs='values in a single-chunk polars Series or a pandas ArrowDtype Series AND float32/float64 AND at least one real Arrow null (validity bitmap) AND any operation converting values through _val_to_numpy',
   detected_by={'C19': 'MISSED as generated before: Arrow-backed containers carried NaN as values, never validity-bitmap nulls. Containers polars_nulls / pandas_arrow_nulls added (null slots hold a finite filler in a caller-owned, fingerprinted buffer). Now yes (inputs_unchanged and task_wrote_argument on cumsum, transform reductions, apply)'}),
 'C03-d': dict(property='C03', file='groupby_lib/groupby/factorization.py: factorize_2d (hash-table tracker with int32 keys)', needs='two or more keys whose distinct counts multiply to >= use_dict_limit (5e8) and beyond 2**32 (e.g. > 65,536 distinct values per key, >= ~70,000 rows) AND two present key combinations congruent mod 2**32: they are merged into one group',
   detected_by={'C03': 'MISSED as generated before (no input reached the hash-table route). A fifth real-scale pattern was added: two keys of 100,000 distinct values each on 200-400k rows, compared with the same grouping expressed as one composite integer key. Now yes: every such run (label_diff on size/count/min/last)'}),
 'C04-d': dict(property='C04', file='groupby_lib/groupby/numba.py: _group_func_wrap (a threading.Event shared by the block tasks: "stop scanning once a block has seen every group")', needs='group_first called WITHOUT return_count AND > 1 block AND a later block holding a value for every group AND that block executing before an earlier block starts -- a schedule a real pool practically never produces (0 of 16,900 real-pool calls in the author\'s stress test)',
   detected_by={'C04': 'MISSED as generated before, for a mundane reason: every kernel call passed return_count=True. One call in three now omits it. Now yes: 8 of 20000 runs (blockwise value_diff / returns_vs_raises on first) -- found only because the simulated pool permutes the execution order of deferred tasks'}),
})
for id_, m in META.items():
    d=f'{ROOT}/{id_}'
    if not os.path.isdir(d): continue
    conf=open(f'{d}/confirm.log').read() if os.path.exists(f'{d}/confirm.log') else ''
    meta={
      'id': id_, 'breaks_property': m['property'], 'changed': m['file'],
      'source': 'independent sub-agent given only the property text and its own scratch worktree of /repo (nothing from /verif)',
      'needs_to_manifest': m['needs'],
      'confirmed_by_me': {
         'how': 'tools_confirm_seeded.sh: fresh scratch worktree of /repo HEAD; demo_mutant.py without the patch, then with it; then the serial baseline suite on the patched tree compared with /root/.vp/BASELINE.json',
         'log': conf.strip().splitlines(),
         'note': 'tests.test_groupby.test_core.TestGroupBy::test_multi_key_large_data[*] assert a wall-clock comparison with pandas and flip on a loaded machine; a "broken" entry of that name is load, not the change',
      },
      'checks_run': {k: f'tools_mutants.py patch seeded/{id_}/patch.diff {k}  ->  {v}' for k,v in m['detected_by'].items()},
    }
    json.dump(meta, open(f'{d}/meta.json','w'), indent=1)
    print('wrote', id_)
