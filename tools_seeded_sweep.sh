#!/bin/bash
# Runs every seeded change (seeded/<id>/patch.diff) against the check of its property at the
# registered quick run count, in scratch worktrees. Output: one line per change.
cd "$(dirname "$0")"
declare -A RUNS=( [C03]=7000 [C04]=160000 [C13]=4000 [C19]=3000 [C20]=120000 )
for d in seeded/*/; do
  id=$(basename $d); p=${id:0:3}
  echo "=== $id seeded (sub-agent) -> [$p]"
  /venv/bin/python tools_mutants.py patch seeded/$id/patch.diff $p --runs ${RUNS[$p]} 2>&1 | grep "^\[" | cut -c1-260
done
