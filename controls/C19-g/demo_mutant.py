"""
Demonstration for the seeded C19 defect (GroupBy keeps a view of a boolean NumPy key).

C19: "... returned results own their data, so writing into a result (or into the input
afterwards) never changes the other, nor the result of repeating the call."

Scenario: the caller builds a GroupBy from a NumPy key, uses it, then re-uses its key
buffer for something else (writes into it) and calls the same GroupBy again.  The
grouping must not notice: it has to own its integer codes.

Exit code 0 and "PASS" on the correct library, exit code 1 and "FAIL ..." otherwise.
Run from the root of the checkout:

    NUMBA_CACHE_DIR=$PWD/.numba_cache PYTHONPATH=$PWD python demo_mutant.py
"""

import sys
import warnings

import numpy as np
import pandas as pd

warnings.simplefilter("ignore")

from groupby_lib import GroupBy  # noqa: E402

problems = []


def snapshot(arr):
    arr = np.asarray(arr)
    return (arr.dtype.str, arr.shape, arr.tobytes())


def frame_bytes(result):
    """Value *and* label bytes of a pandas result."""
    return (
        snapshot(result.to_numpy()),
        tuple(map(repr, result.index.tolist())),
    )


def check_key(label, key, scribble):
    """
    key      : the caller's NumPy key
    scribble : function writing new content into `key` in place
    """
    values = np.array([1.0, 2.0, 4.0, 8.0, 16.0, 32.0])
    values_before = snapshot(values)
    key_before = snapshot(key)

    gb = GroupBy(key)

    first = {
        "sum": gb.sum(values),
        "size": gb.size(),
        "cumsum": gb.cumsum(values),
        "shift": gb.shift(values),
        "first(transform)": gb.first(values, transform=True),
    }
    first_bytes = {name: frame_bytes(res) for name, res in first.items()}
    codes_before = snapshot(gb.group_ikey)

    # 1. the calls themselves must leave the caller's arrays alone
    if snapshot(key) != key_before:
        problems.append(f"{label}: the key was modified by the calls")
    if snapshot(values) != values_before:
        problems.append(f"{label}: the values were modified by the calls")

    # 2. what the grouping hands out must not be the caller's memory
    if np.shares_memory(np.asarray(gb.group_ikey), key):
        problems.append(
            f"{label}: GroupBy.group_ikey shares memory with the caller's key array"
        )

    # 3. the caller now re-uses its key buffer: write into the input afterwards
    scribble(key)

    if snapshot(gb.group_ikey) != codes_before:
        problems.append(
            f"{label}: writing into the key afterwards changed GroupBy.group_ikey "
            f"(now {np.asarray(gb.group_ikey).tolist()})"
        )

    #    ... earlier results must be unaffected ...
    for name, res in first.items():
        if frame_bytes(res) != first_bytes[name]:
            problems.append(
                f"{label}: writing into the key afterwards changed the earlier result of {name}"
            )

    #    ... and so must the result of repeating each call on the same GroupBy
    again = {
        "sum": gb.sum(values),
        "size": gb.size(),
        "cumsum": gb.cumsum(values),
        "shift": gb.shift(values),
        "first(transform)": gb.first(values, transform=True),
    }
    for name, res in again.items():
        if frame_bytes(res) != first_bytes[name]:
            problems.append(
                f"{label}: writing into the key afterwards changed the result of repeating "
                f"{name}: {first[name].to_numpy().tolist()} -> {res.to_numpy().tolist()}"
            )


def regroup(arr):
    # new content with a different partition of the rows (not just renamed groups)
    arr[:] = np.sort(arr)


def reverse_ints(arr):
    arr[:] = arr[::-1].copy()


# the trigger: a boolean NumPy key
check_key(
    "bool ndarray key",
    np.array([True, False, True, True, False, False]),
    regroup,
)
# same through a non-contiguous boolean key
base = np.array([True, True, False, True, True, False, True, True, False, False, False, True])
check_key("strided bool ndarray key", base[::2], regroup)

# controls: other key dtypes never aliased the caller's array
check_key("int64 ndarray key", np.array([3, 1, 3, 3, 1, 2]), reverse_ints)
check_key("float64 ndarray key", np.array([0.5, 1.5, 0.5, 0.5, 1.5, 2.5]), reverse_ints)
check_key(
    "str ndarray key",
    np.array(["b", "a", "b", "b", "a", "c"]),
    reverse_ints,
)

if problems:
    print("FAIL")
    for p in problems:
        print("  -", p)
    sys.exit(1)

print("PASS")
sys.exit(0)
