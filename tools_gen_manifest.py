"""Regenerates MANIFEST.json from the tables below (kept as code so that the
manifest stays consistent: `python3 tools_gen_manifest.py`)."""
import json, subprocess

BASELINE = "cd /repo && /venv/bin/python -m pytest -ra -q -p no:cacheprovider --timeout=900 --continue-on-collection-errors"

CHECKS = {
    "C04": dict(
        text="Seeded search (deterministic simulation of the block workers' thread pool with fault injection) over kernel inputs, block splits, "
        "schedules and faults (worker failure before/after a task, thread-spawn failure, interruption of the waiting caller, crash points between statements (a MemoryError or Ctrl-C raised before a drawn Python line of the library, placed by a traced dry run; DESIGN 9.4); after a call in which a fault fired the same call is repeated and must be right): every block-wise execution is compared with the single-pass kernel and the single-pass kernel with a "
        "pure-Python per-group reference model. Sampling of the bounded space the property names (not enumeration); a clean batch is evidence, not proof.",
        note="Trusts: task atomicity (numba nogil kernels), NUMBA_BOUNDSCHECK=1 for memory safety, the 60-line reference model in gbsim/c04.py, numpy/pyarrow. "
        "The int64-sum-with-int64.min cell is compared only within one container type.",
        design="4.2",
        technique="deterministic simulation: simulated thread pool (task-atomic and pre-emptive models) + seeded schedules + injected worker/spawn failures and statement-level crash points; reference-model and block-wise-vs-single-pass oracles",
    ),
}

CHECKS["C20"] = dict(
    text="Seeded search over arrays, thread counts (explicit and the default heuristic on a simulated machine of 1-64 CPUs), block schedules of the simulated "
    "pool and injected faults (worker failure, spawn failure, interruption of the waiting caller, crash points between statements (a MemoryError or Ctrl-C raised before a drawn Python line of the library, placed by a traced dry run; DESIGN 9.4); after a call in which a fault fired the same call is repeated and must be right); every result is compared with NumPy's NaN-aware function computed in float64 (exactly for min/max/count, within a "
    "derived summation bound for sum/mean/var/std) and with the one-thread result. The pure helper clauses (nb_dot, bools_to_categorical, pretty_cut) are "
    "evaluated alongside against their definitions; the level claimed rests on the reducer clause. Sampling: evidence, not proof.",
    note="Trusts NumPy as the oracle, task atomicity, NUMBA_BOUNDSCHECK=1. Integer arrays never contain int64.min (library null marker, no NumPy counterpart).",
    design="4.5",
    technique="deterministic simulation: simulated thread pool (task-atomic and pre-emptive models) + simulated cpu_count + rescaled thread heuristic + injected worker failures and statement-level crash points; NumPy reference oracle",
)

CHECKS["C03"] = dict(
    text="Seeded search over logical datasets, operations, execution strategies (chunking threshold, rows per thread, key chunks, simulated cpu_count, pool "
    "workers, pyarrow chunk layouts of keys and values), schedules of the simulated thread pool (two independent schedules per strategy) and injected worker "
    "failures / spawn failures / interruptions of the waiting caller / crash points between statements (DESIGN 9.4). Operations come from the whole public catalogue, one in five through the pandas-style facade. Relational oracle: a fresh GroupBy under the explored strategy must give the same outcome as under the baseline strategy (whole factorization, "
    "one thread, contiguous inputs); a faulted call must raise or return the baseline value, and the same call repeated afterwards must be right. One fault-free run in three applies its operations in sequence to one shared grouping under both strategies. A real-scale arm exercises the unmodified 1,000,000-row literals. "
    "Sampling: a clean batch is evidence, not proof.",
    note="Trusts the baseline strategy as reference (a defect identical under every strategy is invisible by design), task atomicity, NUMBA_BOUNDSCHECK=1, "
    "the canonical comparison of gbsim/compare.py (index dtype and integer width ignored; float sums within a derived bound).",
    design="4.1",
    technique="deterministic simulation: simulated thread pool and machine, rescaled strategy literals, seeded schedules incl. pre-emption inside task bodies, injected worker/spawn failures and statement-level crash points; relational strategy-vs-baseline and schedule-vs-schedule oracles",
)

CHECKS["C13"] = dict(
    text="Seeded search over histories: one GroupBy is driven by a simulated client through 2-8 (thorough: 14) drawn steps -- any public operation with fresh "
    "masks/columns (directly or through a reused pandas-style facade object), copy-constructor steps, class-form calls, failing calls, and in the fault configuration one injected worker failure, spawn failure, interruption of the waiting caller or crash point between two statements of the library (a MemoryError or Ctrl-C before a drawn Python line, biased to land right after the object re-bound one of its attributes; DESIGN 9.4), followed half of the time by a retry or a close relative of the failed call -- under drawn strategy "
    "knobs so that every key representation (contiguous, chunked with per-chunk dictionaries, chunked after unification, sorted prefix, arrow-chunked) is reached "
    "at small sizes. After every step the outcome is compared with a fresh GroupBy used for that step only, and the grouping's labels and per-row labels are "
    "compared with those at construction. Sampling: evidence, not proof.",
    note="The model is a fresh object running the same code, so history-independent defects cancel out by design. Invariants read private attributes via getattr.",
    design="4.3",
    technique="deterministic simulation: stateful history generation against a fresh-object reference model, simulated thread pool, injected worker failures, interrupts and statement-level crash points (seeded, replayable), cross-invariants after every step",
)
CHECKS["C19"] = dict(
    text="Seeded search over client/library histories sharing memory: keys, values, masks and codes live in drawn containers (NumPy strided/offset/read-only views, "
    "pandas NumPy- and Arrow-backed, Categorical, polars, pyarrow arrays and chunked arrays); after every step -- including failing steps and steps with an injected "
    "worker failure, interruption or crash point between two statements of the library, and steps through the pandas-style facade -- byte-level fingerprints of every owning buffer and the grouping's labels are compared with the initial ones; after a scribble over every "
    "writable byte of a returned result the fingerprints are checked again and the identical call repeated on the same and on a fresh object must equal a deep copy "
    "of the first result. The simulated pool's shared-write monitor flags any task that writes into an argument array. Sampling: evidence, not proof.",
    note="Trusts the fingerprint walker of gbsim/executor.py to reach every owning buffer; the client writes only where the result reports itself writable.",
    design="4.4",
    technique="deterministic simulation: client/library shared-memory histories with write monitors, result scribbling and repeat-call oracle, simulated thread pool with injected failures and statement-level crash points",
)

NOT_APPLICABLE = {
    "C01": "pure function of (keys, values, mask): no schedule, history or fault in it; strategy dependence is decided under C03/C04 (C04's reference model is this definition at kernel level)",
    "C02": "deterministic relation between a key array and its codes per route; route/chunk dependence is decided relationally under C03, survival across calls under C13",
    "C05": "relation between two evaluations of a pure function (masked vs pre-filtered input); mask splitting across chunks is in C03's workload",
    "C06": "non-interference of a pure function (delete null-key rows, compare); where null-key handling differs between strategies (pointer wrap-around, last-group pollution in EMA) it surfaced and was repaired under C03",
    "C07": "relation between two outputs for one input; layout/history dependence of transform is decided under C03/C13 (apply/median transform order defect repaired there)",
    "C08": "single-threaded pure kernel; 'interleaving of groups' is row order of the input array, not a run-time schedule",
    "C09": "single-threaded pure kernel with per-group buffers; no task, knob, clock or shared state",
    "C10": "pure kernel; `times` is an input array and the library never reads a clock, so there is no clock seam to skew",
    "C11": "pure naming/ordering/shape logic; multi-column parallel dispatch is in C03's workload",
    "C12": "container/dtype conversion is deterministic input normalisation; chunk boundaries of chunked arrays are a C03 strategy dimension",
    "C14": "pure pandas post-processing of a computed frame (and the margin path raises ModuleNotFoundError on this environment)",
    "C15": "single-threaded pure kernels; the int16 counter limit is an input-size defect, not an execution one",
    "C16": "pure definitions and identities; apply's dispatch of the user function through the pool is in C03's op set",
    "C17": "thin pure delegation to the core engine; its defects are argument mix-ups visible on any single call",
    "C18": "pure input validation (a predicate on lengths and indexes); failing calls are reused as history steps in C13/C19",
}

def main():
    src = subprocess.run(["git", "-C", "/repo", "log", "--format=%H %s"], capture_output=True, text=True).stdout.splitlines()
    fixes = [l.split()[0] for l in src if l.split(" ", 1)[1].startswith("fix:")]
    m = {
        "version": 1,
        "setup_cmd": "cd /verif && ./check selfcheck",
        "hooks": {
            "guard": "GROUPBY_LIB_VERIF",
            "enable": "no source hook in /repo: the launcher ./check sets GROUPBY_LIB_VERIF=1 in its worker processes, where gbsim.seams.install() substitutes "
            "concurrent.futures.ThreadPoolExecutor/as_completed, cpu_count and the strategy literals by attribute/AST substitution before groupby_lib is imported; "
            "with the variable unset gbsim refuses to install anything and the library is byte-for-byte the shipped one",
            "baseline_off_cmd": BASELINE,
            "source_commits": [],
            "add_only": True,
        },
        "engines": [
            {
                "name": "gbsim",
                "path": "/verif/gbsim",
                "serves_properties": sorted(CHECKS),
                "kind_free_text": "deterministic simulator: choice-sequence engine (one seed -> scenario + schedule + fault plan), discrete-event task-atomic model of the "
                "thread pool plus a pre-emptive model (task bodies in real threads, one baton, pre-emption at library line events), statement-level crash points (sys.settrace), simulated machine and rescaled strategy knobs, relational and reference-model oracles, shrinking, replay files",
            }
        ],
        "checks": [
            {
                "property_id": pid,
                "quick_cmd": f"cd /verif && ./check {pid} --tier quick",
                "thorough_cmd": f"cd /verif && ./check {pid} --tier thorough",
                "evidence_file": f"/verif/evidence/{pid}.json",
                "replay_cmd_template": "cd /verif && ./check replay {path}",
                "engine": "gbsim",
                "level_claimed": {"category": "exploration", "text": c["text"], "design_ref": c["design"]},
                "level_note": c["note"],
                "technique": c["technique"],
            }
            for pid, c in sorted(CHECKS.items())
        ],
        "notes": "Genuine defects repaired in /repo as unguarded 'fix:' commits: " + ", ".join(fixes) + ". See known_findings.json and DESIGN.md section 6.",
        "not_applicable": [{"property_id": k, "reason": v} for k, v in sorted(NOT_APPLICABLE.items())],
    }
    with open("/verif/MANIFEST.json", "w") as f:
        json.dump(m, f, indent=1)
        f.write("\n")

if __name__ == "__main__":
    main()
