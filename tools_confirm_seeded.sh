#!/bin/bash
# usage: tools_confirm_seeded.sh <id>   (expects seeded/<id>/patch.diff and demo_mutant.py)
# Confirms in a scratch worktree: demo passes without the change, fails with it, and the
# repository's stable baseline still passes with it. Writes seeded/<id>/confirm.log.
id="$1"; d=/tmp/mut-$id; here="$(cd "$(dirname "$0")" && pwd)"
git -C /repo worktree remove --force $d 2>/dev/null; rm -rf $d
"$here/tools_worktree.sh" $d >/dev/null || exit 2
log="$here/seeded/$id/confirm.log"; : > "$log"
cp "$here/seeded/$id/demo_mutant.py" $d/demo_mutant.py
run_demo() { (cd $d && PYTHONPATH=$d timeout 1200 /venv/bin/python demo_mutant.py > $d/demo.out 2>&1; echo $?); }
a=$(run_demo); echo "demo without change: exit=$a  $(tail -1 $d/demo.out)" | tee -a "$log"
git -C $d apply "$here/seeded/$id/patch.diff" || { echo "patch does not apply" | tee -a "$log"; exit 2; }
b=$(run_demo); echo "demo with change: exit=$b  $(tail -1 $d/demo.out | cut -c1-200)" | tee -a "$log"
(cd "$here" && /venv/bin/python tools_baseline.py --repo $d 2>&1 | tail -4) | tee -a "$log"
git -C /repo worktree remove --force $d; rm -rf $d
