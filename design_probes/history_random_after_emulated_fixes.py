import numba.core.dispatcher as _d
_d.Dispatcher.enable_caching = lambda self: None
import numpy as np, pandas as pd, pyarrow as pa, warnings, collections, io, contextlib, random
warnings.simplefilter("ignore")
from groupby_lib.groupby import core
from groupby_lib.groupby.core import GroupBy
# emulate fix F2
def _unify(self, keep_chunked=False):
    if not self.key_is_chunked: return
    if self._group_key_pointers is not None:
        chunks=[np.where(np.asarray(k)<0, -1, p[np.asarray(k)]) if len(p) else np.asarray(k).astype('int64') for p,k in zip(self._group_key_pointers, self._group_ikey.chunks)]
        self._group_key_pointers=None
    elif keep_chunked: return
    else: chunks=[c.to_numpy() for c in self._group_ikey.chunks]
    self._group_ikey = pa.chunked_array(chunks) if keep_chunked else np.concatenate(chunks)
GroupBy._unify_group_key_chunks=_unify
R=random.Random(1)
def eq(a,b):
    if isinstance(a,str) or isinstance(b,str): return a==b
    if isinstance(a,dict): 
        return list(map(str,a.keys()))==list(map(str,b.keys())) and all(np.array_equal(x,y) for x,y in zip(a.values(),b.values()))
    if isinstance(a,(pd.Series,pd.DataFrame)):
        if a.shape!=b.shape: return False
        ia=[str(x) for x in a.index]; ib=[str(x) for x in b.index]
        if ia!=ib: return False
        return np.allclose(np.asarray(a,dtype=float), np.asarray(b,dtype=float), equal_nan=True, rtol=1e-9, atol=1e-9)
    return np.allclose(np.asarray(a,dtype=float), np.asarray(b,dtype=float), equal_nan=True)
def run(f,g):
    try:
        with contextlib.redirect_stdout(io.StringIO()): return f(g)
    except Exception as e: return "EXC "+type(e).__name__
bad=collections.Counter(); ex={}
for it in range(2500):
    n=R.randint(8,40); ng=R.randint(1,5)
    rng=np.random.default_rng(it)
    keys=rng.integers(0,ng,n)
    kind=R.choice(["rand","sorted","prefix","float_nan"])
    if kind=="sorted": keys=np.sort(keys)
    if kind=="prefix": keys=np.concatenate([np.sort(keys[:n//2]), keys[n//2:]])
    if kind=="float_nan": keys=keys.astype(float); keys[rng.random(n)<.15]=np.nan
    core.THRESHOLD_FOR_CHUNKED_FACTORIZE=R.choice([4,8,10**6])
    mk=lambda: GroupBy(keys, sort=srt)
    srt=R.choice([True,False])
    def newvals():
        v=rng.integers(-4,5,n).astype(float); v[rng.random(n)<.2]=np.nan; return v
    def newmask(): return R.choice([None, rng.random(n)<.6, slice(R.randint(0,n//2), R.randint(n//2,n))])
    opnames=["sum","min","first","count","mean","size","sum_t","min_t","groups","key_count","head","tail","nth","cumsum","cummax","rolling_sum","shift","median","var","apply","ema_skip"]
    try:
        with contextlib.redirect_stdout(io.StringIO()): g=mk()
    except Exception as e:
        bad[('ctor',type(e).__name__,kind)]+=1; ex.setdefault(('ctor',type(e).__name__,kind),(keys.tolist(),core.THRESHOLD_FOR_CHUNKED_FACTORIZE)); continue
    hist=[]
    for step in range(R.randint(2,7)):
        name=R.choice(opnames); v=newvals(); m=newmask()
        if name in("sum","min","first","count","mean","var"): f=lambda o,name=name,v=v,m=m: getattr(o,name)(v,mask=m)
        elif name=="size": f=lambda o,m=m: o.size(mask=m)
        elif name=="sum_t": f=lambda o,v=v,m=m: o.sum(v,mask=m,transform=True)
        elif name=="min_t": f=lambda o,v=v,m=m: o.min(v,mask=m,transform=True)
        elif name=="groups": f=lambda o: o.groups
        elif name=="key_count": f=lambda o: o.key_count.sort_index()
        elif name in("head","tail"): f=lambda o,name=name,v=v: getattr(o,name)(v,2,keep_input_index=True)
        elif name=="nth": f=lambda o,v=v: o.nth(v,1,keep_input_index=True)
        elif name in("cumsum","cummax"): f=lambda o,name=name,v=v,m=m: getattr(o,name)(v, mask=m if not isinstance(m,slice) else None)
        elif name=="rolling_sum": f=lambda o,v=v: o.rolling_sum(v,window=2,min_periods=1)
        elif name=="shift": f=lambda o,v=v: o.shift(v)
        elif name=="median": f=lambda o,v=v: o.median(v)
        elif name=="apply": f=lambda o,v=v: o.apply(v, np.nanmax)
        else: continue
        hist.append(name)
        a=run(f,g); b=run(f,mk())
        if not eq(a,b):
            key=(name, "chunk" if core.THRESHOLD_FOR_CHUNKED_FACTORIZE<100 else "whole", kind)
            bad[key]+=1; ex.setdefault(key,(list(hist), keys.tolist(), str(m), str(a)[:200], str(b)[:200]))
for k,v in sorted(bad.items()): print(k,v,"\n   ",ex[k])
print("done")
