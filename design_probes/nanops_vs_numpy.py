import numba.core.dispatcher as _d
_d.Dispatcher.enable_caching = lambda self: None
import numpy as np, warnings, itertools, collections
warnings.simplefilter("ignore")
from groupby_lib import nanops
import io, contextlib
rng=np.random.default_rng(0)
bad=collections.Counter(); ex={}
fn_np = dict(nansum=np.nansum, nanmean=np.nanmean, nanmin=np.nanmin, nanmax=np.nanmax,
             nanvar=lambda a: np.nanvar(a, ddof=1), nanstd=lambda a: np.nanstd(a, ddof=1),
             count=lambda a: np.count_nonzero(~np.isnan(a)) if a.dtype.kind=='f' else a.size)
for it in range(1500):
    n=int(rng.integers(1,12)); dt=rng.choice(["f8","f4","i8","i4"])
    a=rng.integers(-5,6,n).astype(dt)
    if dt[0]=="f":
        a[rng.random(n)<rng.choice([0,.3,1.0])]=np.nan
    nt=int(rng.integers(1,min(n,8)+1))
    for name,f in fn_np.items():
        try:
            with contextlib.redirect_stdout(io.StringIO()):
                got = nanops.count(a) if name=="count" else getattr(nanops,name)(a, n_threads=nt)
            got=np.asarray(got, dtype=float)
        except Exception as e:
            got="EXC "+type(e).__name__
        try: want=np.asarray(f(a.astype("f8") if dt[0]=="f" else a), dtype=float)
        except Exception as e: want="NPEXC "+type(e).__name__
        ok = (not isinstance(got,str)) and (not isinstance(want,str)) and np.allclose(got,want,equal_nan=True, rtol=1e-6, atol=1e-6)
        if not ok:
            key=(name,dt, "allnan" if (dt[0]=="f" and np.isnan(a).all()) else ("n1" if n==1 or (dt[0]=='f' and (~np.isnan(a)).sum()<=1) else "gen"), nt>1)
            bad[key]+=1; ex.setdefault(key,(a.tolist(),nt,str(got),str(want)))
for k,v in sorted(bad.items()): print(k,v,ex[k])
# 2D
a2=rng.integers(-5,6,(4,3)).astype(float); a2[1,1]=np.nan
for name in ["nansum","nanmin","nanmax"]:
    for ax in (0,1):
        for nt in (1,2):
            with contextlib.redirect_stdout(io.StringIO()):
                try: got=getattr(nanops,name)(a2, axis=ax, n_threads=nt)
                except Exception as e: got="EXC "+type(e).__name__+str(e)[:60]
            print(name,ax,nt,got, getattr(np,name)(a2,axis=ax))
