import numba.core.dispatcher as _d
_d.Dispatcher.enable_caching = lambda self: None
import numpy as np, pandas as pd, pyarrow as pa, traceback
from groupby_lib.groupby import core
from groupby_lib.groupby.core import GroupBy
rng=np.random.default_rng(1)
n=24
keys = rng.integers(0,4,n); vals=np.round(rng.normal(size=n),2)
def attempt(name, f):
    try:
        r=f(); 
        return r
    except Exception as e:
        return f"EXC {type(e).__name__}: {e}"
def both(name, f, keys=keys, **kw):
    core.THRESHOLD_FOR_CHUNKED_FACTORIZE = 10**6
    a = attempt(name, lambda: f(GroupBy(keys, **kw)))
    core.THRESHOLD_FOR_CHUNKED_FACTORIZE = 8
    g = GroupBy(keys, **kw)
    b = attempt(name, lambda: f(g))
    same = (isinstance(a, (pd.Series,pd.DataFrame)) and isinstance(b,(pd.Series,pd.DataFrame)) and a.equals(b)) or (type(a)==type(b)==str and a==b)
    if not same and isinstance(a,np.ndarray): same = np.array_equal(a,b,equal_nan=True)
    print("==", name, "chunked=", g.key_is_chunked, "SAME" if same else "DIFF")
    if not same:
        print(a); print(b)
both("count transform", lambda g: g.count(vals, transform=True))
both("size transform", lambda g: g.size(transform=True))
both("ema", lambda g: g.ema(vals, alpha=0.5))
pos = np.array([3,3,1,20,7,7,7])
both("sum fancy repeated", lambda g: g.sum(vals, mask=pos))
both("first fancy unsorted", lambda g: g.first(vals, mask=np.array([20,3,1,7])))
both("sum slice", lambda g: g.sum(vals, mask=slice(7,19)))
both("sum slice neg", lambda g: g.sum(vals, mask=slice(-9,-2)))
both("sum slice empty", lambda g: g.sum(vals, mask=slice(6,6)))
both("sum slice boundary", lambda g: g.sum(vals, mask=slice(6,12)))
both("min slice tail", lambda g: g.min(vals, mask=slice(20,None)))
fk = keys.astype(float); fk[[2,9,15]] = np.nan
both("float nan keys sum", lambda g: g.sum(vals), keys=fk)
sk = np.sort(fk)  # NaNs at end
both("sorted float nan-at-end sum", lambda g: g.sum(vals), keys=sk)
sk2 = np.sort(keys).astype(float); sk2[5]=np.nan
both("sorted float nan-middle sum", lambda g: g.sum(vals), keys=sk2)
dk = pd.to_datetime(np.sort(keys), unit='D').to_numpy().copy(); dk[0]=np.datetime64('NaT')
both("sorted dt NaT-first size", lambda g: g.size(), keys=dk)
strk = np.array(list("abcd"))[keys]
both("str keys sum", lambda g: g.sum(vals), keys=strk)
both("str series keys sum", lambda g: g.sum(vals), keys=pd.Series(strk))
both("obj keys sum", lambda g: g.sum(vals), keys=strk.astype(object))
both("nearby", lambda g: g.group_nearby_members(np.arange(n), 2))
both("cumcount", lambda g: g.cumcount())
both("groups", lambda g: pd.Series({k:tuple(v) for k,v in g.groups.items()}))
both("sort=False sum", lambda g: g.sum(vals), sort=False)
