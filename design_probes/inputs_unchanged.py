import numba.core.dispatcher as _d
_d.Dispatcher.enable_caching = lambda self: None
import numpy as np, pandas as pd, pyarrow as pa, polars as pl, hashlib, time
from groupby_lib.groupby import core
from groupby_lib.groupby.core import GroupBy
from groupby_lib import ema, ema_grouped
rng=np.random.default_rng(5); n=20
kraw = rng.integers(0,4,n); vraw = np.round(rng.normal(size=n),2); vraw[[3,7]]=np.nan
mraw = rng.random(n)<0.7
traw = pd.date_range("2024-01-01", periods=n, freq="h").to_numpy()
def bufs(x):
    if isinstance(x, np.ndarray): return [x.tobytes()]
    if isinstance(x, pd.Categorical): return [x.codes.tobytes(), repr(list(x.categories)).encode()]
    if isinstance(x, (pd.Series, pd.Index)):
        a = x.array
        if isinstance(x.dtype, pd.ArrowDtype): return bufs(a._pa_array)
        if isinstance(x.dtype, pd.CategoricalDtype): return bufs(pd.Categorical(x))
        return [np.asarray(x).tobytes()]
    if isinstance(x, pl.Series): return bufs(x.to_arrow())
    if isinstance(x, pa.ChunkedArray): return [b for c in x.chunks for b in bufs(c)]
    if isinstance(x, pa.Array): return [bytes(b.to_pybytes()) if b is not None else b"" for b in x.buffers()]
    raise TypeError(type(x))
def snap(objs): return hashlib.sha256(b"|".join(b for o in objs for b in bufs(o))).hexdigest()
conts = {
 "np": lambda a: a.copy(),
 "pd": lambda a: pd.Series(a.copy()),
 "pd_arrow": lambda a: pd.Series(pa.array(a), dtype=pd.ArrowDtype(pa.array(a).type)),
 "pl": lambda a: pl.Series("x", a),
 "pa": lambda a: pa.array(a),
 "pa_chunked": lambda a: pa.chunked_array([a[:7], a[7:]]),
}
ops = {
 "sum": lambda g,v,m: g.sum(v, mask=m),
 "min_t": lambda g,v,m: g.min(v, mask=m, transform=True),
 "cumsum": lambda g,v,m: g.cumsum(v, mask=m),
 "rolling_sum": lambda g,v,m: g.rolling_sum(v, window=3, min_periods=1, mask=m),
 "shift": lambda g,v,m: g.shift(v, mask=m),
 "ema": lambda g,v,m: g.ema(v, alpha=.3, mask=m),
 "head": lambda g,v,m: g.head(v, 2, keep_input_index=True),
 "median": lambda g,v,m: g.median(v, mask=m),
 "var": lambda g,v,m: g.var(v, mask=m),
 "groups": lambda g,v,m: g.groups,
}
for thr in (10**6, 6):
  core.THRESHOLD_FOR_CHUNKED_FACTORIZE = thr
  for kc in conts:
    for vc in conts:
        k = conts[kc](kraw); v = conts[vc](vraw); m = mraw.copy()
        before = snap([k,v,m])
        for name,op in ops.items():
            try:
                g = GroupBy(k); r = op(g, v, m)
                st="ok"
            except Exception as e:
                st="EXC "+type(e).__name__
            after = snap([k,v,m])
            if after!=before: print("MUTATED", thr, kc, vc, name); before=after
            if st!="ok" and thr==10**6 and kc in("np",) : print(thr,kc,vc,name,st)
print("done")
