import numba.core.dispatcher as _d
_d.Dispatcher.enable_caching = lambda self: None
import numpy as np, pandas as pd, pyarrow as pa, polars as pl
from groupby_lib.groupby import core
from groupby_lib.groupby.core import GroupBy
rng=np.random.default_rng(3)
n=14
keys = rng.integers(0,4,n).astype(float); keys[[2,9]]=np.nan
vals = np.round(rng.normal(size=n),2); vals[[1,5]]=np.nan
mask = rng.random(n)<0.6
mask[keys==3]=False
print("keys",keys); print("vals",vals); print("mask",mask.astype(int))
for thr in [10**6, 4]:
    core.THRESHOLD_FOR_CHUNKED_FACTORIZE=thr
    for f in ["sum","min","count","first","mean","size","var","median"]:
        gb=GroupBy(keys)
        try:
            if f=="size":
                t=gb.size(mask=mask, transform=True); r=GroupBy(keys).size(mask=mask, observed_only=False)
            elif f in("var","median"):
                t=getattr(gb,f)(vals, mask=mask, transform=True); r=getattr(GroupBy(keys),f)(vals, mask=mask)
            else:
                t=getattr(gb,f)(vals, mask=mask, transform=True); r=getattr(GroupBy(keys),f)(vals, mask=mask, observed_only=False)
            print(thr, f, "T:", np.asarray(t), "| R:", dict(zip(r.index, np.asarray(r))))
        except Exception as e:
            print(thr, f, "EXC", type(e).__name__, e)
# containers
gb=GroupBy(keys)
print(type(gb.sum(pl.Series("v", vals), transform=True)), type(gb.sum(pd.Series(vals, index=list("abcdefghijklmn")), transform=True).index))
