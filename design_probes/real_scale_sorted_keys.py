import numba.core.dispatcher as _d
_d.Dispatcher.enable_caching = lambda self: None
import numpy as np, pandas as pd, time
from groupby_lib.groupby.core import GroupBy
n=1_000_000
k = np.repeat(np.arange(10), n//10)
v = np.arange(n, dtype=float)
t=time.time(); gb=GroupBy(k); print("ctor", time.time()-t, gb.key_is_chunked, gb._max_threads_for_numba, gb.group_ikey.dtype)
t=time.time(); r=gb.min(v); print("min", time.time()-t); print(r.values)
print(gb.max(v).values); print(gb.first(v).values); print(gb.last(v).values); print(gb.sum(v).values[:3])
k2 = k.copy(); k2[-1]=0   # not monotonic at the very end -> monotonic piece + chunks
gb=GroupBy(k2); print(gb.key_is_chunked, len(gb._group_key_pointers) if gb._group_key_pointers else None)
print(gb.min(v).values)
rng=np.random.default_rng(0)
k3 = rng.integers(0,10,n); k3[-3:] = 77  # rare group at the end only
gb=GroupBy(k3); print(gb.key_is_chunked); print(gb.min(v).values, gb.first(v).values)
