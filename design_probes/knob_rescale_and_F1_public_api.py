import numba.core.dispatcher as _d
_d.Dispatcher.enable_caching = lambda self: None
import numpy as np, pandas as pd, pyarrow as pa, time, inspect, ast, textwrap
from groupby_lib.groupby import numba as nbf, core
from groupby_lib.groupby.core import GroupBy
# AST rescale of _max_threads_for_numba
src = textwrap.dedent(inspect.getsource(GroupBy._max_threads_for_numba.fget))
print(src)
tree = ast.parse(src)
class R(ast.NodeTransformer):
    n=0
    def visit_Constant(self, node):
        if isinstance(node.value,int) and node.value==1_000_000:
            R.n+=1
            return ast.copy_location(ast.Name(id="__ROWS_PER_THREAD__", ctx=ast.Load()), node)
        return node
tree = R().visit(tree); ast.fix_missing_locations(tree)
# strip decorator
tree.body[0].decorator_list=[]
ns = dict(core.__dict__); ns["__ROWS_PER_THREAD__"]=10
exec(compile(tree, "<rescaled>", "exec"), ns)
GroupBy._max_threads_for_numba = property(ns["_max_threads_for_numba"])
print("replaced literals", R.n)
rng=np.random.default_rng(0)
n=35
k = pd.Categorical(np.array(list("abcd"))[np.sort(rng.integers(0,4,n))])
v = rng.integers(0,9,n).astype(float)
gb = GroupBy(k)
print(gb.key_is_chunked, gb._max_threads_for_numba)
for f in ["sum","min","max","first","last","count","mean"]:
    a = getattr(gb,f)(v)
    b = pd.Series(v).groupby(k, observed=True).agg(f)
    print(f, a.values, b.values)
# kernel-level timing
kk = rng.integers(-1,3,8); vv = rng.integers(0,4,8).astype(float)
nbf.group_min(kk, vv, 3, n_threads=2)
t=time.time()
for i in range(2000): nbf.group_min(kk, vv, 3, n_threads=1)
print("1-thread call", (time.time()-t)/2000)
t=time.time()
for i in range(500): nbf.group_min(kk, vv, 3, n_threads=3)
print("3-thread real pool call", (time.time()-t)/500)
