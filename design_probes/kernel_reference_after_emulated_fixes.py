import numba.core.dispatcher as _d
_d.Dispatcher.enable_caching = lambda self: None
import numpy as np, pandas as pd, pyarrow as pa, warnings, collections, io, contextlib, random
warnings.simplefilter("ignore")
from groupby_lib.groupby import numba as nbf
# emulate F1 fix
def combine(reduce_func_name, chunks, counts=None):
    combined = chunks[0]
    if counts is None:
        cl = np.zeros(len(chunks)); combined_count = 0; have=False
    else:
        cl = counts; combined_count = counts[0]; have=True
    for chunk, count in zip(chunks[1:], cl[1:]):
        combined = nbf.reduce_array_pair(combined, chunk, getattr(nbf.ScalarFuncs, reduce_func_name), counts=(combined_count if have else None))
        combined_count = combined_count + count
    return combined, combined_count
nbf.combine_chunk_results_for_factorized_key = combine; nbf.NumbaList = tuple
R = random.Random(0)
MIN=np.iinfo(np.int64).min
def ref(name, codes, vals, ng, isnull):
    out=[]
    for g in range(ng):
        xs=[v for c,v in zip(codes,vals) if c==g]
        nn=[v for v in xs if not isnull(v)]
        if name=="size": out.append(len(xs))
        elif name=="count": out.append(len(nn))
        elif name=="sum": out.append(sum(nn) if nn else 0)
        elif name=="min": out.append(min(nn) if nn else None)
        elif name=="max": out.append(max(nn) if nn else None)
        elif name=="first": out.append(nn[0] if nn else None)
        elif name=="last": out.append(nn[-1] if nn else None)
        elif name=="mean": out.append(sum(nn)/len(nn) if nn else None)
        elif name=="sum_squares": out.append(float(sum(float(v)**2 for v in nn)) if nn else 0.0)
    return out
bad=collections.Counter(); ex={}
for it in range(6000):
    n=R.randint(0,8); ng=R.randint(1,3)
    codes=np.array([R.choice([-1]+list(range(ng))) for _ in range(n)], dtype=np.int64)
    dt=R.choice(["f","i"])
    if dt=="f":
        vals=np.array([R.choice([np.nan,1.,2.,3.,-1.5]) for _ in range(n)], dtype=float); isnull=lambda v: v!=v; nullv=np.nan
    else:
        vals=np.array([R.choice([MIN if False else 7,1,2,3,-2]) for _ in range(n)], dtype=np.int64); isnull=lambda v: v==MIN; nullv=MIN
    mk=R.choice(["none","bool","pos","slice"])
    if mk=="none": mask=None; sc,sv=codes,vals
    elif mk=="bool": mask=np.array([R.random()<.6 for _ in range(n)],dtype=bool); sc,sv=codes[mask],vals[mask]
    elif mk=="pos":
        mask=np.array([R.randrange(n) for _ in range(R.randint(0,n+2))],dtype=np.int64) if n else np.array([],dtype=np.int64); sc,sv=codes[mask],vals[mask]
    else:
        a=R.randint(-n-1,n+1); b=R.randint(-n-1,n+1); mask=slice(a,b); sc,sv=codes[mask],vals[mask]
    nt=R.randint(1,5)
    chunked = R.random()<.3 and n>=2 and mk!="slice"
    for name in ["size","count","sum","min","max","first","last","mean","sum_squares"]:
        if name=="sum" and dt=="i":  # ndarray int -> 'sum' reducer: MIN not null
            r=ref(name, sc.tolist(), [int(x) for x in sv], ng, lambda v: False)
        else:
            r=ref(name, sc.tolist(), sv.tolist(), ng, isnull)
        r=[nullv if x is None else x for x in r]
        fn=getattr(nbf,"group_"+name)
        kw=dict(ngroups=ng, mask=mask)
        v_in = vals
        if chunked:
            cut=R.randint(0,n); v_in=pa.chunked_array([vals[:cut], vals[cut:]])
        try:
            with contextlib.redirect_stdout(io.StringIO()):
                if name=="size": got=fn(codes, n_threads=nt, **kw)
                else: got=fn(codes, v_in, n_threads=nt, **kw)
            got=np.asarray(got)
            if dt=="i" and name in("min","max","first","last","sum","size","count"): ok = [int(x) for x in got]==[int(x) for x in r]
            else: ok=np.allclose(np.asarray(got,dtype=float), np.asarray([np.nan if (dt=="i" and x==MIN) else x for x in r],dtype=float) if dt=="i" else np.asarray(r,dtype=float), equal_nan=True)
        except Exception as e:
            got="EXC "+type(e).__name__+": "+str(e)[:80]; ok=False
        if not ok:
            key=(name,dt,mk,"chunked" if chunked else ("mt" if nt>1 else "st"))
            bad[key]+=1; ex.setdefault(key,(codes.tolist(), vals.tolist(), str(mask), nt, str(got), r))
for k,v in sorted(bad.items()): print(k,v,"\n    ",ex[k])
print("done")
