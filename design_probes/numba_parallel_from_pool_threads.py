import numba.core.dispatcher as _d
_d.Dispatcher.enable_caching = lambda self: None
import numpy as np, pandas as pd, numba, time
from groupby_lib.groupby.core import GroupBy
rng=np.random.default_rng(0)
n=2_200_000
k = pd.Categorical(np.array(list("abcdefgh"))[rng.integers(0,8,n)])
df = pd.DataFrame({c: rng.normal(size=n) for c in "uvwxyz"})
gb = GroupBy(k)
print(gb.key_is_chunked, gb._max_threads_for_numba)
for i in range(30):
    r = gb.min(df); r2 = gb.sum(df)
print(numba.threading_layer())
print(r.iloc[:2,:3])
print("ok")
