import numba.core.dispatcher as _d
_d.Dispatcher.enable_caching = lambda self: None
import numpy as np, pandas as pd, time
from groupby_lib.groupby.core import GroupBy
from groupby_lib.groupby import core
rng=np.random.default_rng(0)
for n in (1_000_000, 3_000_001):
    k = rng.integers(0,50,n); v = rng.normal(size=n)
    gb=GroupBy(k); gb.min(v); gb.sum(v)
    t=time.time(); gb=GroupBy(k); t1=time.time()-t
    t=time.time(); gb.min(v); gb.sum(v); gb.first(v); t2=time.time()-t
    t=time.time(); g2=GroupBy(k, factorize_large_inputs_in_chunks=False); t3=time.time()-t
    print(n, "ctor chunked", round(t1,3), "3 ops", round(t2,3), "ctor whole", round(t3,3), gb.key_is_chunked, gb._max_threads_for_numba)
# small history timing
core.THRESHOLD_FOR_CHUNKED_FACTORIZE=8
n=40; k=rng.integers(0,5,n); v=rng.normal(size=n); m=rng.random(n)<.6
ops=[lambda g: g.sum(v,mask=m), lambda g: g.groups, lambda g: g.min(v, transform=True), lambda g: g.cumsum(v), lambda g: g.median(v), lambda g: g.head(v,2)]
def run():
    g=GroupBy(k)
    for op in ops:
        for obj in (g, GroupBy(k)):
            try: op(obj)
            except Exception: pass
import io, contextlib
with contextlib.redirect_stdout(io.StringIO()):
    run()
    t=time.time()
    for i in range(30): run()
dt=(time.time()-t)/30
print("history of 6 ops reused+fresh:", round(dt,3))
