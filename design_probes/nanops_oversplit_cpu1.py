import numba.core.dispatcher as _d
_d.Dispatcher.enable_caching = lambda self: None
import numpy as np, os
from groupby_lib import nanops
a=np.array([1.,2.,3.])
for nt in [1,2,3,4,8]:
    try:
        print(nt, [getattr(nanops,f)(a, n_threads=nt) for f in ["nansum","nanmin","nanmax","nanmean","nanvar"]])
    except Exception as e: print(nt, "EXC", type(e).__name__, e)
ai=np.array([5,2,3])
for nt in [1,4,8]:
    try:
        print(nt, [getattr(nanops,f)(ai, n_threads=nt) for f in ["nansum","nanmin","nanmax","nanmean","nanvar"]])
    except Exception as e: print(nt, "EXC", type(e).__name__, e)
b=np.array([np.nan,np.nan,1.,np.nan])
for nt in [1,2,4]:
    print(nt, [getattr(nanops,f)(b, n_threads=nt) for f in ["nansum","nanmin","nanmax","nanmean"]], nanops.count(b))
import unittest.mock as m
with m.patch("os.cpu_count", return_value=1):
    try: print(nanops.nansum(a))
    except Exception as e: print("cpu1 EXC", type(e).__name__, e)
