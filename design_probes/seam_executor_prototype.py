import sys, types, random, time
sys.dont_write_bytecode = True
import concurrent.futures as cf
REAL = (cf.ThreadPoolExecutor, cf.as_completed)
class SimFuture:
    def __init__(s, fn, args, kw): s.fn, s.args, s.kw = fn, args, kw; s._done=False; s._res=None; s._exc=None
    def _run(s):
        if s._done: return
        try: s._res = s.fn(*s.args, **s.kw)
        except BaseException as e: s._exc = e
        s._done = True
    def result(s, timeout=None):
        s._run()
        if s._exc is not None: raise s._exc
        return s._res
    def exception(s, timeout=None): s._run(); return s._exc
    def done(s): return s._done
class SimExecutor:
    depth = 0; calls = []
    rng = random.Random(1)
    def __init__(s, max_workers=None, *a, **k): s.tasks=[]; s.max_workers=max_workers
    def __enter__(s): return s
    def __exit__(s, *a): s.shutdown(); return False
    def shutdown(s, wait=True, **k):
        for t in s.tasks: t._run()
    def submit(s, fn, *args, **kw):
        f = SimFuture(fn, args, kw); s.tasks.append(f); return f
    def map(s, fn, *its): return [s.submit(fn,*a).result() for a in zip(*its)]
def sim_as_completed(fs, timeout=None):
    fs = list(fs); order = list(range(len(fs))); SimExecutor.rng.shuffle(order)
    SimExecutor.depth += 1
    for i in order: fs[i]._run()
    SimExecutor.depth -= 1
    SimExecutor.calls.append((SimExecutor.depth, len(fs), getattr(fs[0].fn,'__name__','?') if fs else None))
    order2 = list(range(len(fs))); SimExecutor.rng.shuffle(order2)
    for i in order2: yield fs[i]
cf.ThreadPoolExecutor = SimExecutor; cf.as_completed = sim_as_completed
import numba.core.dispatcher as _d
_d.Dispatcher.enable_caching = lambda self: None
import numpy as np, pandas as pd
import groupby_lib
from groupby_lib.groupby import core
from groupby_lib.groupby.core import GroupBy
import multiprocessing, os
core.multiprocessing = types.SimpleNamespace(cpu_count=lambda: 8)
import groupby_lib.util as util
util.os = types.SimpleNamespace(cpu_count=lambda: 1)
GroupBy._max_threads_for_numba = property(lambda self: 3)
rng=np.random.default_rng(0); n=30
k = pd.Categorical(np.array(list("abcd"))[rng.integers(0,4,n)])
df = pd.DataFrame({c: rng.integers(0,9,n).astype(float) for c in "uvw"})
gb = GroupBy(k)
print(gb.sum(df))
print(SimExecutor.calls)
t=time.time()
for i in range(200): gb.sum(df)
print("per multi-col nested call", (time.time()-t)/200)
from groupby_lib import nanops
try: print(nanops.nansum(np.arange(5.)))
except Exception as e: print("cpu1", type(e).__name__, e)
