import numba.core.dispatcher as _d
_d.Dispatcher.enable_caching = lambda self: None
import numpy as np, pandas as pd, pyarrow as pa, warnings, collections, io, contextlib, random, inspect, ast, textwrap
warnings.simplefilter("ignore")
from groupby_lib.groupby import numba as nbf, core
from groupby_lib.groupby.core import GroupBy
# ---- emulate fixes F1, F2, F6/F14
def combine(reduce_func_name, chunks, counts=None):
    combined = chunks[0]
    if counts is None: cl=np.zeros(len(chunks)); cc=0; have=False
    else: cl=counts; cc=counts[0]; have=True
    for chunk,count in zip(chunks[1:], cl[1:]):
        combined = nbf.reduce_array_pair(combined, chunk, getattr(nbf.ScalarFuncs, reduce_func_name), counts=(cc if have else None))
        cc = cc+count
    return combined, cc
nbf.combine_chunk_results_for_factorized_key = combine
def _unify(self, keep_chunked=False):
    if not self.key_is_chunked: return
    if self._group_key_pointers is not None:
        chunks=[]
        for p,k in zip(self._group_key_pointers, self._group_ikey.chunks):
            k=np.asarray(k).astype('int64'); chunks.append(np.where(k<0,-1,p[np.clip(k,0,None)]) if len(p) else k)
        self._group_key_pointers=None
    elif keep_chunked: return
    else: chunks=[np.asarray(c) for c in self._group_ikey.chunks]
    self._group_ikey = pa.chunked_array(chunks) if keep_chunked else np.concatenate(chunks)
GroupBy._unify_group_key_chunks=_unify
# rescale rows/thread
src=textwrap.dedent(inspect.getsource(GroupBy._max_threads_for_numba.fget)); tree=ast.parse(src)
class Rr(ast.NodeTransformer):
    def visit_Constant(self,node):
        return ast.copy_location(ast.Name(id="__RPT__",ctx=ast.Load()),node) if node.value==1_000_000 else node
tree=Rr().visit(tree); ast.fix_missing_locations(tree); tree.body[0].decorator_list=[]
ns=core.__dict__; ns["__RPT__"]=10**9
exec(compile(tree,"<r>","exec"),ns); GroupBy._max_threads_for_numba=property(ns["_max_threads_for_numba"])
R=random.Random(7)
def canon(x):
    if isinstance(x,str): return x
    if isinstance(x,dict): return ("dict",[ (str(k),tuple(np.asarray(v).tolist())) for k,v in x.items()])
    if isinstance(x,(pd.Series,pd.DataFrame)):
        return ("pd", [str(i) for i in x.index], np.asarray(x,dtype=float))
    return ("arr", np.asarray(x,dtype=float))
def same(a,b):
    a,b=canon(a),canon(b)
    if isinstance(a,str) or isinstance(b,str): return a==b
    if a[0]!=b[0]: return False
    if a[0]=="dict": return a==b
    if a[0]=="pd":
        return a[1]==b[1] and a[2].shape==b[2].shape and np.allclose(a[2],b[2],equal_nan=True,rtol=1e-9,atol=1e-9)
    return a[1].shape==b[1].shape and np.allclose(a[1],b[1],equal_nan=True)
def run(f):
    try:
        with contextlib.redirect_stdout(io.StringIO()): return f()
    except NotImplementedError as e: return "NOTIMPL"
    except Exception as e: return "EXC "+type(e).__name__
bad=collections.Counter(); ex={}
for it in range(3000):
    n=R.randint(6,36); ng=R.randint(1,5); rng=np.random.default_rng(it)
    base=rng.integers(0,ng,n)
    place=R.choice(["rand","sorted","prefix","blocky"])
    if place=="sorted": base=np.sort(base)
    if place=="prefix": c=R.choice([n//5,n//4,n//3,n//2]); base=np.concatenate([np.sort(base[:c]),base[c:]])
    if place=="blocky": base=np.sort(base); 
    kk=R.choice(["int","float_nan","cat","str","dt_nat","bool"])
    if kk=="int": keys=base
    elif kk=="float_nan": keys=base.astype(float); keys[rng.random(n)<.15]=np.nan
    elif kk=="cat": keys=pd.Categorical.from_codes(base, categories=list("abcdefg")[:ng+1])
    elif kk=="str": keys=np.array(list("abcde"))[base]
    elif kk=="dt_nat": keys=pd.to_datetime(base,unit="D").to_numpy().copy(); keys[rng.random(n)<.1]=np.datetime64("NaT")
    else: keys=(base%2).astype(bool)
    vd=R.choice(["f","i"])
    v=rng.integers(-4,5,n).astype(float); v[rng.random(n)<.2]=np.nan
    if vd=="i": v=rng.integers(-4,5,n)
    mk=R.choice(["none","bool","slice","pos"])
    m={"none":None,"bool":rng.random(n)<.6,"slice":slice(R.randint(0,n//2),R.randint(n//2,n)),"pos":np.sort(rng.choice(n,size=R.randint(1,n),replace=False))}[mk]
    thr=R.choice([3,6,12]); rpt=R.choice([3,7,15]); arrow_vals=R.random()<.3; arrow_keys=(R.random()<.25 and kk in("int","float_nan"))
    ops={
      "sum":lambda g,vv: g.sum(vv,mask=m),"min":lambda g,vv: g.min(vv,mask=m),"max":lambda g,vv: g.max(vv,mask=m),
      "first":lambda g,vv: g.first(vv,mask=m),"last":lambda g,vv: g.last(vv,mask=m),"count":lambda g,vv: g.count(vv,mask=m),
      "mean":lambda g,vv: g.mean(vv,mask=m),"size":lambda g,vv: g.size(mask=m),"var":lambda g,vv: g.var(vv,mask=m),
      "sum_t":lambda g,vv: g.sum(vv,mask=m,transform=True),"max_t":lambda g,vv: g.max(vv,mask=m,transform=True),
      "groups":lambda g,vv: g.groups,"median":lambda g,vv: g.median(vv),"cumsum":lambda g,vv: g.cumsum(vv),
      "rolling_max":lambda g,vv: g.rolling_max(vv,window=2,min_periods=1),"head":lambda g,vv: g.head(vv,2,keep_input_index=True),
      "nth":lambda g,vv: g.nth(vv,-1,keep_input_index=True),"size_noobs":lambda g,vv: g.size(mask=m, observed_only=False),
    }
    for name in R.sample(list(ops),4):
        op=ops[name]
        core.THRESHOLD_FOR_CHUNKED_FACTORIZE=10**9; ns["__RPT__"]=10**9
        a=run(lambda: op(GroupBy(keys), v))
        core.THRESHOLD_FOR_CHUNKED_FACTORIZE=thr; ns["__RPT__"]=rpt
        ks = pa.chunked_array([np.asarray(keys)[:n//3], np.asarray(keys)[n//3:]]) if arrow_keys else keys
        vs = pa.chunked_array([v[:n//2+1], v[n//2+1:]]) if arrow_vals else v
        b=run(lambda: op(GroupBy(ks), vs))
        if not same(a,b):
            key=(name,kk,mk,place if kk in("int","float_nan","dt_nat") else "-", "akeys" if arrow_keys else "", "avals" if arrow_vals else "")
            bad[key]+=1; ex.setdefault(key,(np.asarray(keys).tolist()[:40], thr, rpt, str(m)[:80], str(a)[:160].replace("\n"," "), str(b)[:160].replace("\n"," ")))
agg=collections.Counter()
for k,c in bad.items(): agg[(k[0],k[1],k[2])]+=c
for k,c in sorted(agg.items()): print(k,c)
print("---- examples")
seen=set()
for k,v in sorted(bad.items()):
    if (k[0],k[1]) in seen: continue
    seen.add((k[0],k[1])); print(k, "\n    ", ex[k])
