import numba.core.dispatcher as _d
_d.Dispatcher.enable_caching = lambda self: None
import numpy as np, pandas as pd, pyarrow as pa, traceback
from groupby_lib.groupby import core
from groupby_lib.groupby.core import GroupBy
core.THRESHOLD_FOR_CHUNKED_FACTORIZE = 8
rng=np.random.default_rng(0)
n=40
keys = rng.integers(0,5,n); vals=rng.normal(size=n)
def attempt(name, f):
    try:
        r=f(); print(name, "OK", type(r).__name__)
        return r
    except Exception as e:
        print(name, "EXC", type(e).__name__, e)
gb=GroupBy(keys)
attempt("groups", lambda: gb.groups)
attempt("head after groups", lambda: gb.head(vals, 2))
gb=GroupBy(keys)
attempt("median", lambda: gb.median(vals))
attempt("sum transform after median", lambda: gb.sum(vals, transform=True))
attempt("cumsum after median", lambda: gb.cumsum(vals))
gb=GroupBy(keys)
gb2=attempt("copy", lambda: GroupBy(gb))
attempt("copy.sum", lambda: gb2.sum(vals))
gbu=GroupBy(keys[:6])
gb3=GroupBy(gbu)
attempt("copy-unchunked.sum", lambda: gb3.sum(vals[:6]))
attempt("classform", lambda: GroupBy.sum(keys, vals))
# key arrow chunked
ka = pa.chunked_array([keys[:13], keys[13:30], keys[30:]])
gb=GroupBy(ka)
print(gb.key_is_chunked, [len(p) for p in gb._group_key_pointers])
r1=attempt("arrow sum", lambda: gb.sum(vals))
print((r1.values - GroupBy(keys[:6].repeat(1)).sum(vals[:6]).reindex(r1.index).values) is not None)
print(np.allclose(r1.values, pd.Series(vals).groupby(keys).sum().values))
