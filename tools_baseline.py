"""Runs the repository's baseline suite serially (guard off) and compares with
/root/.vp/BASELINE.json: every stable-pass test must still pass.
usage: /venv/bin/python tools_baseline.py [pytest args...]"""
import json, subprocess, sys, os, xml.etree.ElementTree as ET
REPO = "/repo"
if "--repo" in sys.argv:
    i = sys.argv.index("--repo")
    REPO = sys.argv[i + 1]
    del sys.argv[i : i + 2]
out = f"/tmp/gb_baseline.{os.getpid()}.junit.xml"
env = {k: v for k, v in os.environ.items() if k not in ("GROUPBY_LIB_VERIF", "NUMBA_BOUNDSCHECK")}
cmd = ["/venv/bin/python", "-m", "pytest", "-ra", "-q", "-p", "no:cacheprovider", "--timeout=900", "--continue-on-collection-errors", f"--junitxml={out}"] + sys.argv[1:]
env["PYTHONPATH"] = REPO
r = subprocess.run(cmd, cwd=REPO, env=env, capture_output=True, text=True)
print(r.stdout.splitlines()[-1] if r.stdout else r.stderr[-500:])
base = set(json.load(open("/root/.vp/BASELINE.json"))["stable_pass"])
passed = set()
for tc in ET.parse(out).getroot().iter("testcase"):
    name = f"{tc.get('classname')}::{tc.get('name')}"
    if not any(ch.tag in ("failure", "error", "skipped") for ch in tc):
        passed.add(name)
missing = sorted(base - passed)
print(f"stable baseline tests: {len(base)}; passing now: {len(base & passed)}; broken: {len(missing)}")
for m in missing[:40]:
    print("  BROKEN", m)
os.remove(out)
sys.exit(1 if missing else 0)
