"""Command line of the verification machinery (see ./check)."""

import argparse
import os
import sys

ROOT = os.path.dirname(os.path.abspath(__file__))
if ROOT not in sys.path:
    sys.path.insert(0, ROOT)


def main(argv=None):
    from gbsim import DEFAULT_SEED, runner

    ap = argparse.ArgumentParser(prog="check")
    ap.add_argument("what", help="C03|C04|C13|C19|C20|replay|selfcheck|selftest")
    ap.add_argument("path", nargs="?", help="replay file (for `replay`)")
    ap.add_argument("--tier", default=os.environ.get("VERIF_TIER", "quick"), choices=["quick", "thorough"])
    ap.add_argument("--runs", type=int, default=None)
    ap.add_argument("--seed", type=int, default=None)
    ap.add_argument("--workers", type=int, default=int(os.environ.get("GBSIM_WORKERS", "16")))
    ap.add_argument("--pairs", type=int, default=None, help="determinism self-test pairs")
    ap.add_argument("--props", default="C04,C20,C03,C13,C19")
    ap.add_argument("--group", default=None, help="triage: comma-separated features to group by")
    a = ap.parse_args(argv)
    seed = a.seed if a.seed is not None else int(os.environ.get("VERIF_SEED", DEFAULT_SEED))
    try:
        if a.what == "replay":
            if not a.path:
                ap.error("replay needs a file")
            return runner.run_replay(a.path)
        if a.what == "selfcheck":
            from gbsim import selftest

            return selftest.selfcheck(seed, a.workers)
        if a.what == "selftest":
            from gbsim import selftest

            return selftest.selftest(seed, a.pairs or 2000, a.workers, [p for p in a.props.split(",") if p])
        if a.what == "triage":
            return runner.run_triage(a.path, a.tier, seed, a.runs or 1000, a.workers, a.group.split(",") if a.group else None)
        if a.what in runner.PROP_MODULES:
            return runner.run_check(a.what, a.tier, seed, runs=a.runs, workers=a.workers, selftest_pairs=a.pairs)
        ap.error(f"unknown command {a.what}")
    except runner.HarnessError as e:
        print(f"HARNESS-ERROR: {e}", file=sys.stderr)
        print(f"HARNESS-ERROR: {str(e).splitlines()[0] if str(e) else e!r}")
        return 2


if __name__ == "__main__":
    sys.exit(main())
