"""Hand-written sensitivity mutants (DESIGN.md 4.x "Mutants" lists): each is a small
textual edit applied to a scratch worktree; the named checks must report it (or, for
the controls, must stay quiet).  usage: tools_own_mutants.py [name-substring] [--runs N]"""
import os, subprocess, sys
sys.path.insert(0, os.path.dirname(os.path.abspath(__file__)))
import tools_mutants as tm

U = "groupby_lib/util.py"; N = "groupby_lib/groupby/numba.py"; C = "groupby_lib/groupby/core.py"; F = "groupby_lib/groupby/factorization.py"; NO = "groupby_lib/nanops.py"

MUTANTS = [
    # name, file, old, new, checks, expect_detected
    ("gather_by_completion_order", U, "                results[index] = future.result()", "                results[len([r for r in results if r is not None])] = future.result()", ["C04", "C20", "C03"], True),
    ("submission_index_off", U, "            executor.submit(func, *args): i for i, args in enumerate(arg_list)", "            executor.submit(func, *args): i for i, args in enumerate(reversed(arg_list))", ["C04", "C20"], True),
    ("swallow_task_exception_then_TypeError", U, "                print(f\"Item at index {index} generated an exception: {exc}\")\n                raise", "                print(f\"Item at index {index} generated an exception: {exc}\")\n                results[index] = None", ["C04", "C20", "C03"], True),
    ("pointer_index_ignores_first_chunk", C, "                    pointer = self._group_key_pointers[first_chunk_in + j]", "                    pointer = self._group_key_pointers[j]", ["C03"], True),
    ("prefix_rule_ge", C, "        use_monotonic_piece = cutoff > len(group_key) / 4", "        use_monotonic_piece = cutoff >= len(group_key) / 4", ["C03"], False),
    ("monotonic_le", F, "        if x < prev or x != x:", "        if x <= prev or x != x:", ["C03"], False),
    ("drop_duplicates_removed", C, "        self._result_index = pd.Index(np.concatenate(unique_list)).drop_duplicates()", "        self._result_index = pd.Index(np.concatenate(unique_list))", ["C03"], True),
    ("threads_ignore_column_count", C, "            threads_for_one_call = max(1, max_threads // len(value_list))", "            threads_for_one_call = max(1, max_threads)", ["C03"], False),
    ("first_accepts_nulls", N, "    def first(cur_first, next_val, count):\n        if is_null(next_val):\n            return cur_first, count\n        elif count:", "    def first(cur_first, next_val, count):\n        if count:", ["C04"], True),
    ("merge_count_not_accumulated", N, "        combined_count = combined_count + count\n\n    return combined, combined_count", "        combined_count = count\n\n    return combined, combined_count", ["C04", "C03"], True),
    ("bool_mask_split_not_positions", N, "        if mask.dtype.kind == \"b\":\n            mask = mask.nonzero()[0]\n        chunked_args = (", "        chunked_args = (", ["C04"], True),
    ("nanops_second_stage_count", NO, "        chunk_reduction = \"sum\"\n    elif \"sum\" in reduce_func_name:", "        chunk_reduction = \"count\"\n    elif \"sum\" in reduce_func_name:", ["C20"], True),
    ("nanops_first_non_null_start", NO, "            start = loc + 1", "            start = loc", ["C20"], False),
    ("nanops_split_plus_one", NO, "            list(zip(np.array_split(arr, n_threads))),", "            list(zip(np.array_split(arr, n_threads + 1))),", ["C20"], True),
    ("pointers_not_cleared_after_unify", C, "        self._group_ikey, self._group_key_pointers = unified_key, None", "        self._group_ikey = unified_key", ["C13", "C03"], True),
    ("ikey_count_cached_under_mask", C, "        return self.count_ikey()\n", "        return self.count_ikey(getattr(self, \"_last_mask\", None))\n", ["C13"], False),
    ("index_sorted_flag_stale", C, "            self._index_is_sorted = True  # not necessary to sort now", "            self._index_is_sorted = False", ["C03"], False),
    ("cummax_reuses_input_as_target", N, "    target = _build_target_for_groupby(\n        values[0].dtype, \"sum\" if counting else operation, len(group_key)\n    )", "    target = _build_target_for_groupby(\n        values[0].dtype, \"sum\" if counting else operation, len(group_key)\n    )\n    if operation in (\"max\", \"min\") and len(values) == 1 and values[0].flags.writeable and values[0].flags.c_contiguous:\n        target = values[0]  # same dtype and length: save the allocation", ["C19"], True),
    ("unify_clears_shared_pointer_list", C, "        self._group_ikey, self._group_key_pointers = unified_key, None", "        if self._group_key_pointers is not None:\n            self._group_key_pointers.clear()  # free the tables eagerly\n        self._group_ikey, self._group_key_pointers = unified_key, None", ["C13"], True),
    ("pointers_not_restored_after_failed_pool_call", C, "        results, counts = zip(*parallel_map(func, arg_list))\n", "        pointers, self._group_key_pointers = self._group_key_pointers, None  # baked into arg_list already\n        results, counts = zip(*parallel_map(func, arg_list))\n        self._group_key_pointers = pointers\n", ["C13", "C19"], True),
    ("pointers_restored_on_Exception_only", C, "        results, counts = zip(*parallel_map(func, arg_list))\n", "        pointers, self._group_key_pointers = self._group_key_pointers, None  # baked into arg_list already\n        try:\n            results, counts = zip(*parallel_map(func, arg_list))\n        except Exception:  # (should have been `finally`: Ctrl-C is not an Exception)\n            self._group_key_pointers = pointers\n            raise\n        self._group_key_pointers = pointers\n", ["C13"], True),
    # --- visible only through a crash / interrupt between two statements (stmt_fail / stmt_interrupt) ---
    ("unify_commits_in_two_steps", C, "        self._group_ikey, self._group_key_pointers = unified_key, None", "        self._group_key_pointers = None\n        if len(self) >= 0:  # (any statement in between)\n            self._group_ikey = unified_key", ["C13", "C19"], True),
    ("subset_mask_restored_on_success_only", C, "        return self.agg(**kwargs, mask=subset_mask & global_mask) / self.agg(\n            **kwargs, mask=global_mask\n        )", "        if not isinstance(subset_mask, np.ndarray) or not subset_mask.flags.writeable or global_mask is None:\n            return self.agg(**kwargs, mask=subset_mask & global_mask) / self.agg(**kwargs, mask=global_mask)\n        keep = subset_mask.copy()\n        subset_mask &= np.asarray(global_mask)  # no third mask of full length\n        result = self.agg(**kwargs, mask=subset_mask) / self.agg(**kwargs, mask=global_mask)\n        subset_mask[:] = keep\n        return result", ["C19"], True),
    # --- visible only when task bodies interleave (pre-emptive pool model); atomic tasks hide it ---
    ("block_targets_recycled_across_tasks", N, "    target = _build_target_for_groupby(values.dtype, reduce_func_name, ngroups)\n    return _group_by_reduce(\n        group_key=group_key,\n        values=values,\n        target=target,\n        indexer=indexer,\n        reduce_func=getattr(ScalarFuncs, reduce_func_name),\n        check_in_bounds=check_in_bounds,\n    )", "    fresh = _build_target_for_groupby(values.dtype, reduce_func_name, ngroups)\n    key = (str(values.dtype), reduce_func_name, ngroups)\n    target = _RECYCLED.setdefault(key, fresh)  # one scratch target per kind of reduction\n    target[:] = fresh\n    result, count = _group_by_reduce(\n        group_key=group_key,\n        values=values,\n        target=target,\n        indexer=indexer,\n        reduce_func=getattr(ScalarFuncs, reduce_func_name),\n        check_in_bounds=check_in_bounds,\n    )\n    return result.copy(), count\n\n\n_RECYCLED = {}", ["C04", "C03"], True),
    ("slice_mask_written", N, "        values = values[mask]\n        group_key = group_key[mask]\n        mask = None", "        values = values[mask]\n        group_key = group_key[mask]\n        mask = None\n        if isinstance(values, np.ndarray) and values.flags.writeable and values.dtype.kind == \"f\":\n            values[np.isnan(values)] = np.nan", ["C19"], False),
]

if __name__ == "__main__":
    a = sys.argv[1:]
    runs = None
    if "--runs" in a:
        i = a.index("--runs"); runs = int(a[i + 1]); del a[i:i + 2]
    sel = a[0] if a else ""
    for name, path, old, new, checks, expect in MUTANTS:
        if sel not in name:
            continue
        def mut(wt, path=path, old=old, new=new):
            p = os.path.join(wt, path)
            s = open(p).read()
            if s.count(old) != 1:
                print(f"[{name}] anchor text found {s.count(old)} times in {path}: skipped")
                return False
            open(p, "w").write(s.replace(old, new))
            return True
        print(f"=== {name} (expect detected={expect}) -> {checks}", flush=True)
        tm.do("own-" + name, mut, checks, runs)
